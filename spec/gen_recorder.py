#!/usr/bin/env python3
"""Generate harness/tree/internal/zzvfbe/recorder_gen.go from backend.Backend (run when the interface changes)."""
import re
src=open('/repo/backend/backend.go').read()
body=src[src.index('type Backend interface {'):src.index('type BackendUnsupported struct{}')]
methods=[]
for line in body.splitlines():
    line=line.strip()
    m=re.match(r'^([A-Z]\w+)\(',line)
    if not m or line.startswith('//'): continue
    d=0
    for i in range(m.end()-1,len(line)):
        if line[i]=='(': d+=1
        if line[i]==')':
            d-=1
            if d==0: break
    methods.append((m.group(1), line[m.end():i], line[i+1:].strip()))
def split_params(p):
    parts=[];d=0;cur=''
    for ch in p:
        if ch in '([{': d+=1
        if ch in ')]}': d-=1
        if ch==',' and d==0: parts.append(cur.strip());cur=''
        else: cur+=ch
    if cur.strip(): parts.append(cur.strip())
    return parts
out=['''// Code generated from backend.Backend by /verif/spec/gen_recorder.py; DO NOT EDIT BY HAND.
package zzvfbe

import (
	"bufio"
	"context"
	"errors"

	"github.com/aws/aws-sdk-go-v2/service/s3"
	"github.com/aws/aws-sdk-go-v2/service/s3/types"
	"github.com/versity/versitygw/internal/zzvf"
	"github.com/versity/versitygw/s3err"
	"github.com/versity/versitygw/s3response"
)

var _ = types.ObjectOwnershipBucketOwnerEnforced
var _ = s3.ServiceID
var _ = s3response.Object{}
var _ = bufio.NewWriter
var _ context.Context

// Recorder is the backend model for controller checks: every call is recorded; results are arbitrary
// values of the result type (pointers non-nil) or an error.
type Recorder struct {
	Calls []Call
}

type Call struct {
	Method string
	Args   []any
	Failed bool // the call returned an error
}

func (r *Recorder) String() string { return "recorder" }
func (r *Recorder) Shutdown()      {}

func (r *Recorder) rec(m string, args ...any) int {
	r.Calls = append(r.Calls, Call{Method: m, Args: args})
	zzvf.Trace("be." + m)
	return len(r.Calls) - 1
}

func (r *Recorder) failed(i int, err error) error {
	if err != nil {
		r.Calls[i].Failed = true
	}
	return err
}

// FailKinds: 1 = API errors only, 2 = also raw (non-API) errors
var FailKinds = 1

var errRaw = errors.New("input/output error")

// NoFail lists methods that never fail in the current harness (keeps path counts down).
var NoFail = map[string]bool{}

// fail decides whether the call returns an error (a generic S3 API error).
func fail(m string) error {
	if NoFail[m] {
		return nil
	}
	switch zzvf.Choice("be."+m+"$err", 1+FailKinds) {
	case 1:
		return s3err.GetAPIError(s3err.ErrNoSuchKey)
	case 2:
		return errRaw // a non-API error (I/O fault and the like)
	}
	return nil
}

// Hooks: per-method result computation installed by harnesses (nil = arbitrary value of the result type).
var Hooks = map[string]func(r *Recorder, args []any) (any, error){}
''']
for name,params,results in methods:
    if name in ('Shutdown','SelectObjectContent'): continue
    ps=split_params(params)
    named=any(len(x.split())>=2 for x in ps)
    types_=[]
    if not named:
        types_=ps
    else:
        pend=0
        for x in ps:
            f=x.split()
            if len(f)==1: pend+=1
            else:
                t=' '.join(f[1:])
                types_+= [t]*(pend+1); pend=0
    plist=['a%d %s'%(i,t) for i,t in enumerate(types_)]
    argn=['a%d'%i for i in range(len(types_))]
    rs=results.strip()
    rtypes=split_params(rs[1:-1]) if rs.startswith('(') else ([rs] if rs else [])
    out.append('func (r *Recorder) %s(%s) %s {'%(name,', '.join(plist),rs))
    rest=', '.join(argn[1:])
    out.append('\tci := r.rec("%s"%s)'%(name, (', '+rest) if rest else ''))
    args_lit='[]any{%s}'%rest
    if rtypes==['error']:
        out.append('\tif h := Hooks["%s"]; h != nil {\n\t\t_, err := h(r, %s)\n\t\treturn r.failed(ci, err)\n\t}'%(name,args_lit))
        out.append('\treturn r.failed(ci, fail("%s"))'%name)
    elif len(rtypes)==2 and rtypes[1]=='error':
        out.append('\tvar out %s'%rtypes[0])
        out.append('\tif h := Hooks["%s"]; h != nil {\n\t\tv, err := h(r, %s)\n\t\tif err != nil {\n\t\t\treturn out, r.failed(ci, err)\n\t\t}\n\t\treturn v.(%s), nil\n\t}'%(name,args_lit,rtypes[0]))
        out.append('\tif err := fail("%s"); err != nil {\n\t\treturn out, r.failed(ci, err)\n\t}'%name)
        out.append('\tzzvf.Havoc(&out, "be.%s")'%name)
        out.append('\treturn out, nil')
    else:
        out.append('\t_ = ci')
        out.append('\tvar out %s'%rtypes[0])
        out.append('\treturn out')
    out.append('}\n')
out.append('func (r *Recorder) SelectObjectContent(ctx context.Context, input *s3.SelectObjectContentInput) func(w *bufio.Writer) {\n\t_ = r.rec("SelectObjectContent", input)\n\treturn func(w *bufio.Writer) {}\n}\n')
open('/verif/harness/tree/internal/zzvfbe/recorder_gen.go','w').write('\n'.join(out))
