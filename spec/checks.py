"""Per-property harness sets. Each harness: name, pkgs to load, entry function (path relative to the module),
native (replayable natively), reach labels required (vacuity), witness (twin that must be violated)."""

CHECKS = {}

CHECKS["C13"] = dict(
    explanation="Symbolic execution of backend.ParseGetObjectRange (real SSA incl. strings.Split/strconv.ParseInt) against a reference "
                "classifier written from the property statement; object size is an arbitrary int64, header bytes symbolic.",
    harnesses=[
        dict(name="H13a-structured", pkgs=["./backend"], entry="backend.VfRangeStructured", native=True,
             reach=["partial", "whole", "unsat"]),
        dict(name="H13a-free", pkgs=["./backend"], entry="backend.VfRangeFree", native=True, reach=["whole"]),
        dict(name="H13a-freespec", pkgs=["./backend"], entry="backend.VfRangeFreeSpec", native=True,
             reach=["partial", "whole", "unsat", "grey"]),
        dict(name="H13a-witness", pkgs=["./backend"], entry="backend.VfRangeWitness", witness=True),
    ],
    assumptions=["SMT solvers z3 4.8.12 (primary) and cvc5 1.0 --solve-bv-as-int=sum (fallback) are sound",
                 "GoSE interprets go/ssa faithfully (validated by native replay of counterexamples and differential self-tests)"],
    outside=["numbers longer than the stated digit bound", "headers longer than the stated byte bound", "HTTP framing of the response body"],
)

CHECKS["C14"] = dict(
    explanation="Resources.Match executed symbolically on arbitrary pattern/subject bytes against a textbook glob matcher expressed as one formula.",
    harnesses=[
        dict(name="H14a-glob", pkgs=["./auth"], entry="auth.VfGlobMatch", native=True, reach=["matched", "not-matched"]),
        dict(name="H14a-witness", pkgs=["./auth"], entry="auth.VfGlobWitness", witness=True),
    ],
    assumptions=["SMT solvers sound", "GoSE faithful to go/ssa semantics"],
    outside=["patterns/subjects longer than the stated bounds"],
)
