"""Per-property harness sets. Each harness: name, pkgs to load, entry function (path relative to the module),
native (replayable natively), reach labels required (vacuity), witness (twin that must be violated)."""

CHECKS = {}

CHECKS["C13"] = dict(
    explanation="Symbolic execution of backend.ParseGetObjectRange (real SSA incl. strings.Split/strconv.ParseInt) against a reference "
                "classifier written from the property statement; object size is an arbitrary int64, header bytes symbolic. H13b: the real GetObject "
                "route handler (controllers.GetActions, response helpers) over the real posix.GetObject on the file-system model: objects of 0..3 (4) symbolic "
                "bytes x Range absent / a-b / a- / -n (numbers 0..5) / multi-range / other unit / garbage; status, Content-Range, announced length and the "
                "streamed body bytes against the same reference.",
    harnesses=[
        dict(name="H13a-structured", pkgs=["./backend"], entry="backend.VfRangeStructured", native=True,
             reach=["partial", "whole", "unsat"]),
        dict(name="H13a-free", pkgs=["./backend"], entry="backend.VfRangeFree", native=True, reach=["whole"]),
        dict(name="H13a-freespec", pkgs=["./backend"], entry="backend.VfRangeFreeSpec", native=True,
             reach=["partial", "whole", "unsat", "grey"]),
        dict(name="H13a-witness", pkgs=["./backend"], entry="backend.VfRangeWitness", witness=True),
        dict(name="H13b-e2e", pkgs=["./s3api"], entry="s3api.VfGetRangeE2E", redirects="spec/redirects_ctrl.json,spec/redirects_fs.json", reach=["responded"],
             key_trace=['"Range:']),
    ],
    assumptions=["SMT solvers z3 5.1 (primary, z3-new) and cvc5 1.0 --solve-bv-as-int=sum (fallback) are sound",
                 "GoSE interprets go/ssa faithfully (validated by native replay of counterexamples and differential self-tests)"],
    outside=["numbers longer than the stated digit bound", "headers longer than the stated byte bound", "HTTP framing of the response body (fasthttp)",
             "H13b: objects longer than 3 (4) bytes, range numbers above 5, versioned reads, azure / s3proxy backends"],
)

CHECKS["C14"] = dict(
    explanation="Resources.Match executed symbolically on arbitrary pattern/subject bytes against a textbook glob matcher expressed as one formula; "
                "Actions.FindMatch and Principals.Contains on symbolic strings against the statement's matching rules; the deny-overrides fold "
                "(VerifyBucketPolicy -> isAllowed -> findMatch) for every number of statements, effect and combination of leaf match results "
                "(leaf matchers summarised by symbolic Booleans - compositional). Put-time validation: BucketPolicyItem.Validate / BucketPolicy.Validate on "
                "statements built from every combination of one or two resources (inside / outside the bucket, object / bucket patterns) and actions in both "
                "map insertion orders against the validity rule of the statement.",
    harnesses=[
        dict(name="H14a-glob", pkgs=["./auth"], entry="auth.VfGlobMatch", native=True, reach=["matched", "not-matched"]),
        dict(name="H14b-fold", pkgs=["./auth"], entry="auth.VfPolicyFold", redirects="spec/redirects_policy.json", reach=["allowed", "denied"]),
        dict(name="H14b-action", pkgs=["./auth"], entry="auth.VfActionMatch", native=True, reach=["matched", "not-matched"]),
        dict(name="H14b-principal", pkgs=["./auth"], entry="auth.VfPrincipalMatch", native=True, reach=["checked"]),
        dict(name="H14a-witness", pkgs=["./auth"], entry="auth.VfGlobWitness", witness=True),
        dict(name="H14b-witness", pkgs=["./auth"], entry="auth.VfPolicyWitness", redirects="spec/redirects_policy.json", witness=True),
        dict(name="H14b-resource", pkgs=["./auth"], entry="auth.VfPolicyResource", native=True, reach=["allowed", "denied"]),
        dict(name="H14c-statement", pkgs=["./auth"], entry="auth.VfPolicyValidate", native=True, reach=["validated"]),
        dict(name="H14c-document", pkgs=["./auth"], entry="auth.VfPolicyDocument", native=True, reach=["validated"]),
    ],
    assumptions=["SMT solvers sound", "GoSE faithful to go/ssa semantics"],
    outside=["patterns/subjects longer than the stated bounds", "raw JSON lexing and the string-or-array shapes (encoding/json is a model)",
             "put-time validation: statements with more than two resources / two actions, trailing-* action patterns, principals checked against an IAM service; "
             "that the route leaves the old policy in place when validation fails is covered by the route order only (validation precedes the backend call)"],
)

_C12_KEYS = dict(key_trace=['"class='])
CHECKS["C12"] = dict(
    explanation="Both aws-chunked decoders (real SSA incl. bufio, bytes, strconv, base64, hex) are driven over legal streams built from symbolic "
                "payload bytes, for every single cut position of the encoded stream and several destination buffer sizes; hashes/HMAC are "
                "uninterpreted functions. Invalid streams: one byte replaced by any other value, every truncation point, appended junk.",
    harnesses=[
        dict(name="H12a-unsigned", pkgs=["./s3api/utils"], entry="s3api/utils.VfChunkUnsignedValid", pkgname="utils", native=True,
             redirects="spec/redirects.json", reach=["drained", "eof"], **_C12_KEYS),
        dict(name="H12a-signed", pkgs=["./s3api/utils"], entry="s3api/utils.VfChunkSignedValid", pkgname="utils", native=True,
             redirects="spec/redirects.json", reach=["drained", "eof"], **_C12_KEYS),
        # thorough budget 2m instead of the default 8m: this harness keeps 16 fallback solver processes busy and the machine ran out of
        # memory once at 8m (gose 10 GB + cvc5 1.8 GB each; 49 GB in use at 4m); a reached budget is reported as a note
        dict(name="H12a-signed-trailer", pkgs=["./s3api/utils"], entry="s3api/utils.VfChunkSignedTrailerValid", pkgname="utils", native=True,
             redirects="spec/redirects.json", reach=["drained", "eof"], budget={"thorough": "2m"}, **_C12_KEYS),
        dict(name="H12b-unsigned", pkgs=["./s3api/utils"], entry="s3api/utils.VfChunkUnsignedInvalid", pkgname="utils", native=True,
             redirects="spec/redirects.json", reach=["accepted", "rejected"], key_trace=['"mutation=']),
        dict(name="H12b-signed", pkgs=["./s3api/utils"], entry="s3api/utils.VfChunkSignedInvalid", pkgname="utils", native=True,
             redirects="spec/redirects.json", reach=["rejected"], key_trace=['"mutation=']),
        dict(name="H12b-signed-trailer", pkgs=["./s3api/utils"], entry="s3api/utils.VfChunkSignedTrailerInvalid", pkgname="utils", native=True,
             redirects="spec/redirects.json", reach=["rejected"], key_trace=['"mutation=']),
        dict(name="H12-witness", pkgs=["./s3api/utils"], entry="s3api/utils.VfChunkWitness", redirects="spec/redirects.json", witness=True),
    ],
    assumptions=["hash functions and HMAC are uninterpreted functions (functional consistency only; collision freedom assumed in H12b)",
                 "the underlying reader returns data fragments and io.EOF separately (thorough tier: also together)"],
    outside=["payloads beyond the listed chunk-size vectors", "more than one cut position (quick) / two (thorough, short streams)", "ECDSA payload types"],
)

CHECKS["C07"] = dict(
    explanation="backend.Walk (real SSA incl. io/fs.WalkDir, sort, strings) over an in-memory fs.FS whose shape is case-split and whose "
                "names, prefix, delimiter and marker are symbolic ASCII bytes, against the S3 listing rules computed over the same key set: "
                "one unbounded page (set equality and order), pagination by NextMarker (termination, each entry exactly once, page size), "
                "and delimiter-less listing from an arbitrary marker.",
    harnesses=[
        dict(name="H07-unpaged", pkgs=["./backend"], entry="backend.VfWalkUnpaged", native=True, reach=["listed"], budget=dict(thorough="15m")),
        dict(name="H07-paged", pkgs=["./backend"], entry="backend.VfWalkPaged", native=True, reach=["paged"], budget=dict(thorough="25m")),
        dict(name="H07-marker", pkgs=["./backend"], entry="backend.VfWalkMarker", native=True, reach=["listed"], budget=dict(thorough="10m")),
        dict(name="H07-bookkeeping", pkgs=["./backend/posix"], entry="backend/posix.VfBookkeepingHidden", redirects="spec/redirects_fs.json", reach=["listed"]),
        dict(name="H07-witness", pkgs=["./backend"], entry="backend.VfWalkWitness", witness=True),
    ],
    assumptions=["the file system lists directory entries sorted by name (os.ReadDir contract)",
                 "plain (non-object) directories are never empty (gateway prunes empty parents)",
                 "names are ASCII without '/' and NUL"],
    outside=["more than 2 (quick) / 3 (thorough) nodes, names longer than 2 bytes, multi-byte UTF-8", "size/ETag reporting (fileToObj; covered under C01)",
             "ListObjectVersions paging"],
)

CHECKS["C16"] = dict(
    explanation="utils.IsValidBucketName (real SSA incl. Go's regexp engine interpreted symbolically) against the S3 naming rules written as one formula: "
                "all names up to the length bound, names around the 63-character limit, and dotted-quad shaped names. On the file-system model, real posix "
                "code: ListBuckets paging/ownership filter over every population of <=3 buckets vs a reference; CreateBucket on an existing name fails and "
                "leaves a byte-identical subtree (data + xattrs); every bucket setting reads back as last written through a fresh Posix value and is gone "
                "after delete; DeleteBucket || PutObject / CompleteMultipartUpload with one request nested at every file-system step of the other.",
    harnesses=[
        dict(name="H16a-short", pkgs=["./s3api/utils"], entry="s3api/utils.VfBucketNameShort", pkgname="utils", native=True, reach=["accepted", "refused"]),
        dict(name="H16a-long", pkgs=["./s3api/utils"], entry="s3api/utils.VfBucketNameLong", pkgname="utils", native=True, reach=["checked"]),
        dict(name="H16a-ip", pkgs=["./s3api/utils"], entry="s3api/utils.VfBucketNameIP", pkgname="utils", native=True, reach=["checked"]),
        dict(name="H16a-witness", pkgs=["./s3api/utils"], entry="s3api/utils.VfBucketNameWitness", witness=True),
        dict(name="H16b-listbuckets", pkgs=["./backend/posix"], entry="backend/posix.VfListBuckets", redirects="spec/redirects_fs.json", reach=["listing-complete"]),
        dict(name="H16b-create-existing", pkgs=["./backend/posix"], entry="backend/posix.VfCreateExisting", redirects="spec/redirects_fs.json", reach=["create-returned"]),
        dict(name="H16c-settings", pkgs=["./backend/posix"], entry="backend/posix.VfBucketSettings", redirects="spec/redirects_fs.json", reach=["read-back"]),
        dict(name="H16d-delete-emptiness", pkgs=["./backend/posix"], entry="backend/posix.VfDeleteBucketEmptiness", redirects="spec/redirects_fs.json", reach=["delete-returned"]),
        dict(name="H16d-delete-race", pkgs=["./backend/posix"], entry="backend/posix.VfDeleteBucketRace", redirects="spec/redirects_fs.json", reach=["both-returned"],
             key_inputs=["nesting"], key_trace=['"the other request runs before']),
    ],
    assumptions=["SMT solvers sound", "GoSE faithful (regexp package executed from its real SSA)",
                 "H16b-d: file-system model (zzvfos): atomic namespace operations, xattrs as per-inode map; encoding/json as round-trip model"],
    outside=["reserved prefixes/suffixes (xn--, sthree-, -s3alias, --ol-s3)", "more than three buckets; bucket names other than aa/ab/b in the listing harness",
             "settings programs longer than 2 (quick) / 3 (thorough) operations; policy/ACL documents are opaque byte strings of up to 2 bytes",
             "DeleteBucket races: one request runs entirely at one file-system step of the other (or after it); schedules splitting both, three requests, "
             "CreateBucket as the racing request, sidecar metadata store", "HTTP-level plumbing of the settings in the controllers"],
)

_CTRL = dict(pkgs=["./s3api"], redirects="spec/redirects_ctrl.json", pkgname="s3api", native=True, native_partial=True, key_trace=['"route='])
CHECKS["C15"] = dict(
    explanation="Every S3 route handler (real SSA of s3api/controllers, auth.VerifyAccess, the ACL middleware) is executed symbolically with the read-only "
                "switch on, for root, admin, bucket-owning user and unprivileged user, every sub-resource flag and the stated headers, over a recording "
                "backend; the oracle is that no mutating backend method is ever reached. Counterexamples are replayed through a real fiber.App.",
    harnesses=[
        dict(name="H15-readonly", entry="s3api.VfReadonly", reach=["returned", "handler-entered"], panic_ok=True, **_CTRL),
        dict(name="H15-reads", pkgs=["./s3api"], entry="s3api.VfReadonlyReads", redirects="spec/redirects_ctrl.json", reach=["answered"], key_trace=['"route=']),
    ],
    assumptions=["the ACL middleware and route handler are looked up in the registrations the real server constructor (s3api.New, S3ApiRouter.Init) makes on a recording fiber.App model",
                 "fiber/fasthttp request context modelled (zzvfbe): route parameters, query flags, headers, locals as set by the authentication middleware",
                 "backend = recorder returning arbitrary results or errors", "XML/JSON request bodies = arbitrary value of the target type or malformed"],
    outside=["headers other than the stated set are absent", "admin API routes", "what a backend does after being called"],
)


CHECKS["C03"] = dict(
    explanation="(a) route typestate: every S3 route handler runs symbolically over a recording backend with the access decision functions "
                "replaced by recording stand-ins; on every path each backend call that reads or changes bucket/object data must be preceded by a "
                "granted decision for the corresponding S3 action on exactly the bucket/object the call names, per key for batch deletes and for "
                "the source of copies. (b) the decision functions themselves (real VerifyAccess, VerifyObjectCopyAccess, VerifyBucketPolicy) "
                "against a reference: root/admin bypass, policy-else-ACL, symbolic caller/grantee/principal ids. (c) the real router code "
                "(S3ApiRouter.Init) is executed with route registration recorded; every admin (PATCH) route's installed handler chain is run for admin / "
                "userplus / user callers: a non-admin neither changes nor lists accounts or bucket owners.",
    harnesses=[
        dict(name="H03b-routes", pkgs=["./s3api"], entry="s3api.VfAccess", redirects="spec/redirects_ctrl_stub.json", reach=["returned", "batch-delete"],
             key_trace=['"route='], panic_ok=True),
        dict(name="H03a-policyfold", pkgs=["./auth"], entry="auth.VfPolicyFold", redirects="spec/redirects_policy.json", reach=["allowed", "denied"]),
        dict(name="H03a-verifyaccess", pkgs=["./s3api"], entry="s3api.VfVerifyAccess", redirects="spec/redirects_ctrl.json", reach=["granted", "denied"]),
        dict(name="H03a-copyaccess", pkgs=["./s3api"], entry="s3api.VfCopyAccess", redirects="spec/redirects_ctrl.json", reach=["granted", "denied"]),
        dict(name="H03a-copyaccess-samebucket", pkgs=["./s3api"], entry="s3api.VfCopyAccessSameBucket", redirects="spec/redirects_ctrl.json", reach=["granted", "denied"]),
        dict(name="H03c-admin", pkgs=["./s3api"], entry="s3api.VfAdminRoutes", redirects="spec/redirects_ctrl.json", reach=["non-admin", "admin-served"],
             key_trace=['"route=']),
    ],
    assumptions=["fiber context, backend and XML/JSON decoding are models", "the table backend-method -> required S3 action (harness/tree/s3api/zz_vf_access.go) "
                 "follows the AWS action names; look-ups a route makes for its own decisions are whitelisted explicitly"],
    outside=["headers outside the stated set", "ListBuckets ownership filter is checked under C16 (H16b-listbuckets); the GET / route handler itself is not in the route table of H03b",
             "the role gate of a separate admin server is reached through H02c-admin (C02, NewAdminServer wiring); H03c-admin runs the admin routes as S3ApiRouter.Init registers them", "native replay (the stand-ins exist only in the engine)"],
)

CHECKS["C10"] = dict(
    explanation="(a) auth.CheckObjectAccess (real code) over a backend model holding a symbolic lock configuration, retention (mode, symbolic date), "
                "legal hold and bypass policy, with a symbolic clock: a protected version is always refused. (b) route typestate: every backend call "
                "that destroys or replaces a version (PutObject, CopyObject, CompleteMultipartUpload, DeleteObject, DeleteObjects) is preceded by a "
                "granted lock check covering exactly the keys it touches. (c) real posix lock storage on the file-system model: from an object under legal "
                "hold / COMPLIANCE / GOVERNANCE with an arbitrary future date, no PutObjectRetention (any mode/date/bypass flag), PutObjectLockConfiguration (any "
                "accepted document) or PutBucketVersioning(Suspended) weakens the protection: CheckObjectAccess over the real backend still refuses, the "
                "retention is not removed, shortened or downgraded. (d) end to end: one destructive request (delete, delete by version, put, batch delete, "
                "copy onto it, multipart completion onto it) through the real route handler over the real posix backend, versioned and unversioned lock "
                "bucket, three callers, bypass header on/off: the protected version's bytes are still retrievable and unchanged.",
    harnesses=[
        dict(name="H10a-decision", pkgs=["./s3api"], entry="s3api.VfLockDecision", redirects="spec/redirects_ctrl.json", reach=["refused", "let-through"]),
        dict(name="H10a-batch", pkgs=["./s3api"], entry="s3api.VfLockDecisionBatch", redirects="spec/redirects_ctrl.json", reach=["refused", "let-through"]),
        dict(name="H10b-routes", pkgs=["./s3api"], entry="s3api.VfLockRoutes", redirects="spec/redirects_ctrl_stub.json", reach=["returned", "destructive-call"],
             key_trace=['"route='], panic_ok=True),
        dict(name="H10c-lockstate", pkgs=["./backend/posix"], entry="backend/posix.VfLockState", redirects="spec/redirects_fs.json", reach=["settings-changed"],
             key_trace=['"setting change:']),
        dict(name="H10d-e2e", pkgs=["./s3api"], entry="s3api.VfLockE2E", redirects="spec/redirects_ctrl.json,spec/redirects_fs.json", reach=["responded"],
             key_trace=['"request:'], key_inputs=["versioning_dir"]),
    ],
    assumptions=["time.Now = arbitrary non-decreasing whole seconds; AddDate with 365-day years", "H10a/b: lock state comes from the backend model; H10c: real posix storage of lock attributes on the file-system model",
                 "decision functions replaced by recording stand-ins in the route typestate"],
    outside=["setting-change programs longer than 1 (quick) / 2 (thorough) calls", "bucket default retention is explored but not asserted", "bucket deletion",
             "retention of non-current versions (version-id addressed calls)"],
)

CHECKS["C19"] = dict(
    explanation="(a) every S3 route handler + the real response helpers (SendResponse/SendXMLResponse) over a recording backend and a recording event "
                "sender: at most one notification per request, exactly one of the right type after a successful object change, none when the request "
                "failed (API error, raw backend error, refused, malformed). (b) the real Webhook.SendEvent/createEventSchema: record contents for "
                "single-object events, fan-out for batch deletes. (c) EventFilter.Filter: exact entry, wildcard entry, else false.",
    harnesses=[
        dict(name="H19-routes", pkgs=["./s3api"], entry="s3api.VfEvents", redirects="spec/redirects_ctrl_stub.json", reach=["returned", "successful-change"],
             key_trace=['"route=', '"call='], panic_ok=True),
        dict(name="H19-webhook-single", pkgs=["./s3event"], entry="s3event.VfWebhookSingle", redirects="spec/redirects_event.json", reach=["sent"]),
        dict(name="H19-webhook-batch", pkgs=["./s3event"], entry="s3event.VfWebhookBatch", redirects="spec/redirects_event.json", reach=["sent", "partial-failure"]),
        dict(name="H19-filter", pkgs=["./s3event"], entry="s3event.VfEventFilter", redirects="spec/redirects_event.json", reach=["filtered"]),
    ],
    assumptions=["goroutines spawned by the sender run to completion at the spawn point; delivery (HTTP) is a recording stand-in",
                 "fiber context / backend / XML are models"],
    outside=["concurrent requests: ordering, shared buffers, lifetime of strings aliasing fasthttp's recycled request buffers (cannot be encoded)",
             "kafka and nats senders"],
)

CHECKS["C20"] = dict(
    explanation="The engine turns every index, slice, nil dereference, type assertion, division and make() executed on any path into a check. "
                "Dedicated harnesses: all S3 route handlers with request documents that are arbitrary values of their type including absent (nil) "
                "elements and empty lists; the backend's parsers of client strings; both aws-chunked decoders on arbitrary bytes incl. the rule that no "
                "allocation is sized by unauthenticated input. Posix listing / paging entry points on the file-system model with every count 0..3 and "
                "marker from a small set over buckets with up to 2 objects and 4 uploads.",
    harnesses=[
        dict(name="H20-routes", pkgs=["./s3api"], entry="s3api.VfCrashRoutes", redirects="spec/redirects_ctrl_stub.json", reach=["returned", "handler-entered"],
             key_trace=['"route=']),
        dict(name="H20-auth", pkgs=["./s3api"], entry="s3api.VfAuthCrash", redirects="spec/redirects_auth.json", reach=["answered"]),
        dict(name="H20-presign", pkgs=["./s3api"], entry="s3api.VfPresignCrash", redirects="spec/redirects_auth.json", reach=["answered"]),
        dict(name="H20-nobody", pkgs=["./s3api"], entry="s3api.VfNoBodyStream", redirects="spec/redirects_auth.json", reach=["answered", "handler-entered"]),
        dict(name="H20-parsers", pkgs=["./backend"], entry="backend.VfCrashParsers", native=True, reach=["returned"]),
        dict(name="H20-chunk", pkgs=["./s3api/utils"], entry="s3api/utils.VfCrashChunk", redirects="spec/redirects.json", pkgname="utils", native=True, reach=["returned"]),
        dict(name="H20-copy-source", pkgs=["./s3api"], entry="s3api.VfCopySourceNoCrash", redirects="spec/redirects_ctrl.json,spec/redirects_fs.json", reach=["answered"],
             key_trace=['"copy source:']),
        dict(name="H20-signed-header", pkgs=["./s3api/utils"], entry="s3api/utils.VfCrashSignedHeader", redirects="spec/redirects.json", pkgname="utils", native=True, reach=["returned"]),
        dict(name="H20-posix-uploads", pkgs=["./backend/posix"], entry="backend/posix.VfPosixNoCrashUploads", redirects="spec/redirects_fs.json", reach=["returned"],
             key_trace=['"entry point:']),
        dict(name="H20-posix-listings", pkgs=["./backend/posix"], entry="backend/posix.VfPosixNoCrashListings", redirects="spec/redirects_fs.json", reach=["returned"],
             key_trace=['"entry point:']),
        dict(name="H20-posix-object", pkgs=["./backend/posix"], entry="backend/posix.VfPosixNoCrashObject", redirects="spec/redirects_fs.json", reach=["returned"],
             key_trace=['"entry point:']),
    ],
    assumptions=["backend results follow the producer's contract (non-nil outputs on success)", "fiber context / XML decoding are models",
                 "callers pass non-empty copy-source headers to ParseCopySource"],
    outside=["liveness/latency beyond loop termination", "the HTTP layer (fiber/fasthttp parsing)",
             "posix entry points other than ListParts, ListMultipartUploads, ListObjects(V2), ListObjectVersions, GetObjectAttributes, HeadObject; counts above 3, more than 4 uploads / 2 objects",
             "panics inside un-modelled libraries"],
)

CHECKS["C02"] = dict(
    explanation="The real authentication middlewares (presigned and header: immediate and deferred verification via AuthReader), the MD5 and ACL "
                "middlewares and every route handler run symbolically over a backend model whose PutObject/UploadPart consume the body stream the way "
                "the posix backend does; the signature computation is a recording stand-in. Oracle: every mutating backend call happens after a "
                "verification that succeeded; a 2xx answer implies one; missing/unknown/invalid credentials end in an error without successful "
                "mutation. Second harness: AuthReader under each of the three chunk decoders on valid streams - the verification has run by the "
                "time the decoder reports EOF. H02b: ValidateDate for an arbitrary request date and clock: accepted exactly within 15 minutes. "
                "H02c: the chain and routes the real admin server constructor installs, for every admin route and four kinds of credentials: account and "
                "bucket-owner effects only after a verification that succeeded for an admin account.",
    harnesses=[
        dict(name="H02a-chain", pkgs=["./s3api"], entry="s3api.VfAuthChain", redirects="spec/redirects_auth.json", reach=["answered", "handler-entered"],
             key_trace=['"route=', '"call='], panic_ok=True),
        dict(name="H02a-deferred", pkgs=["./s3api/utils"], entry="s3api/utils.VfDeferredAuth", redirects="spec/redirects_deferred.json", reach=["drained", "accepted"]),
        dict(name="H02d-e2e", pkgs=["./s3api"], entry="s3api.VfAuthE2E", redirects="spec/redirects_auth.json,spec/redirects_fs.json", reach=["answered", "unauthenticated", "stored"],
             panic_ok=True),
        dict(name="H02c-admin", pkgs=["./s3api"], entry="s3api.VfAdminAuthChain", redirects="spec/redirects_auth.json", reach=["answered", "admin-served"],
             key_trace=['"route=']),
        dict(name="H02b-date", pkgs=["./s3api/utils"], entry="s3api/utils.VfDateWindow", redirects="spec/redirects.json", reach=["accepted", "refused"]),
    ],
    assumptions=["the middleware chain per route is the one the real server constructor installs (s3api.New -> app.Use / S3ApiRouter.Init, executed on a recording fiber.App model); route matching itself (fiber) is not modelled",
                 "CheckValidSignature / CheckPresignedSignature return an arbitrary verdict (what a correct signature is - canonical request, HMAC chain - is outside)",
                 "the posix backend's body consumption is modelled by the recorder hooks (reads to EOF, fails on read error; directory objects unread)",
                 "access/lock decision functions are stand-ins; time.Now is a fixed instant inside the request's validity window"],
    outside=["aws/signer/v4 (canonical request, HMAC chain, header selection in createHttpRequestFromCtx)",
             "presigned expiry arithmetic (validateExpiration goes through float64 seconds: floats are not encoded)", "body content beyond 2 bytes in the chain harness"],
)

_FS = dict(pkgs=["./backend/posix"], redirects="spec/redirects_fs.json", pkgname="posix")
CHECKS["C06"] = dict(
    explanation="posix.PutObject (real code incl. tmpfile.Write/falloc/link, HashReader, io.Copy) on the file-system model: symbolic body bytes, an "
                "arbitrary declared length, an arbitrary declared Content-MD5, new and existing key, both temp-file strategies, EOF delivered with or "
                "after the last bytes. Oracle: commit implies digest match and declared = received = stored size and stored bytes = received bytes; "
                "otherwise the key keeps its previous state. Same for posix.UploadPart (new and already present part number; Content-MD5 or "
                "x-amz-checksum-sha256; returned and stored ETag = MD5 of the bytes).",
    harnesses=[
        dict(name="H06-putobject", entry="backend/posix.VfUploadIntegrity", reach=["committed", "refused"], **_FS),
        dict(name="H06-uploadpart", entry="backend/posix.VfUploadPartIntegrity", reach=["committed", "refused"], **_FS),
    ],
    assumptions=["file-system model (harness/tree/internal/zzvfos): atomic namespace operations, xattrs as per-inode map, no spontaneous I/O errors",
                 "MD5 / SHA-256 are uninterpreted functions (equal inputs give equal digests; distinct inputs may collide)"],
    outside=["bodies longer than the byte bound", "checksum variants other than x-amz-checksum-sha256 on UploadPart; Content-MD5 and a checksum header on the same request", "chunk/trailer signatures (C12)"],
)

CHECKS["C01"] = dict(
    explanation="posix PutObject -> GetObject/HeadObject/ListObjectsV2 through a fresh Posix value (another gateway process) on the file-system model: "
                "symbolic body bytes, content type and user metadata; keys incl. nested and URL-reserved characters; both temp-file strategies. "
                "Oracle: bytes, length, ETag = quoted hex MD5 (uninterpreted), content type and metadata read back; HEAD and listing agree with GET. "
                "H01-e2e: PUT, GET, HEAD through the real route handlers over the real posix backend: bytes, length, ETag, content headers and user metadata. H01-copy: CopyObject to another key / bucket / onto itself with directive COPY or REPLACE: destination = source bytes + ETag, metadata per directive, source unchanged.",
    harnesses=[
        dict(name="H01-putget", entry="backend/posix.VfPutGet", reach=["read-back"], **_FS),
        dict(name="H01-two-processes", entry="backend/posix.VfOverwriteAcrossProcesses", reach=["checked"], **_FS),
        dict(name="H01-copy", entry="backend/posix.VfCopyRoundTrip", reach=["copied"], **_FS),
        dict(name="H01-e2e", pkgs=["./s3api"], entry="s3api.VfPutGetE2E", redirects="spec/redirects_ctrl.json,spec/redirects_fs.json", reach=["read-back"]),
    ],
    assumptions=["file-system model as for C06", "MD5 is an uninterpreted function"],
    outside=["multipart uploads (assembly is checked under C08; aws-chunked decoding under C12)", "copies of versions / with tagging or checksum directives", "sidecar metadata store", "headers other than Content-Type / Content-Encoding / Cache-Control / one x-amz-meta value in the end-to-end harness", "bodies beyond the byte bound"],
)

CHECKS["C04"] = dict(
    explanation="(a) every posix entry point that takes a path-like value from a header or query parameter (copy source, prefix, start-after, "
                "upload id of Abort/UploadPart/ListParts/Complete, version id of Get/Head/Delete/batch delete/retention/legal hold/copy source, the keys of a "
                "batch delete document, the source of UploadPartCopy) runs on the file-system model with hostile values built from '..', '.', "
                "empty and ordinary segments, with or without a leading slash; the model resolves paths component by component and logs every inode "
                "touched; protected inodes (another bucket, its objects and version store, a file beside the gateway root) must never be read, "
                "created, changed, removed or even resolved. (b) the URL decoder on an arbitrary raw path: a request that is passed on has no dot "
                "segment in its decoded path (bucket and key come from there).",
    harnesses=[
        dict(name="H04a-posix", entry="backend/posix.VfConfinement", reach=["returned"], key_trace=['"param='], **_FS),
        dict(name="H04b-urldecoder", pkgs=["./s3api"], entry="s3api.VfDecodeURL", redirects="spec/redirects_auth.json", reach=["passed-on", "refused"]),
    ],
    assumptions=["file-system model: component-wise resolution, '..' really walks up", "bucket and key reach the backend only through the request path, except the keys of a batch delete (request document) which are covered by H04a"],
    outside=["symlinks", "sidecar metadata store", "admin API parameters other than the bucket of change-bucket-owner", "GetObjectAttributes / tagging version ids", "hostile values of more than 3 (4) segments",
             "percent-encoding beyond one decoding pass is the URL decoder's real behaviour (net/url is executed from its SSA)"],
)

CHECKS["C08"] = dict(
    explanation="posix multipart code on the file-system model: (a) one CompleteMultipartUpload from a pre-state with two uploads of the same key whose "
                "stored parts have symbolic sizes (abstract bulk content around the 5 MiB minimum) and a request listing up to three parts with any "
                "numbers/ETags - accepted exactly when numbers, order, ETags and minimum sizes are valid; object = concatenation of the listed parts, "
                "multipart ETag, upload gone, other upload untouched, else key unchanged; (b) a program create/upload/re-upload/list/abort|complete "
                "with symbolic part bytes; (c) ParseCopySourceRange against the copy-range rules.",
    harnesses=[
        dict(name="H08b-complete", entry="backend/posix.VfMultipartComplete", reach=["completed", "refused"], **_FS),
        dict(name="H08c-program", entry="backend/posix.VfMultipartProgram", reach=["aborted", "completed"], **_FS),
        dict(name="H08a-copyrange", pkgs=["./backend"], entry="backend.VfCopySourceRange", native=True, reach=["accepted", "refused"]),
        dict(name="H08d-part-no-object", entry="backend/posix.VfPartIsNoObject", reach=["probed"], **_FS),
        dict(name="H08e-uploadpartcopy", entry="backend/posix.VfUploadPartCopy", reach=["copied", "refused"], **_FS),
    ],
    assumptions=["file-system model; MD5/SHA-256 uninterpreted (real function on concrete inputs)", "bulk content of big parts is abstract (size only)"],
    outside=["UploadPartCopy from a versioned source / with checksum algorithms", "ListMultipartUploads marker semantics", "checksum variants", "more than three listed parts / two uploads"],
)

CHECKS["C09"] = dict(
    explanation="posix versioning code (PutObject, CompleteMultipartUpload, DeleteObject with and without id, createObjVersion, GetObject by id, "
                "ListObjectVersions/WalkVersions) on the file-system model: programs of put / multipart-put / delete-marker / delete-by-id on one key of a "
                "versioning-enabled bucket, from an absent key or an object that predates versioning (null version), with symbolic bodies, against a "
                "reference history: distinct new ids, every version byte-exact by id, newest version (or missing) by key, listing = history, newest first, one latest; "
                "following the version listing's markers page by page (page size 1 or 2) terminates and reports every entry exactly once. "
                "H09-program also deletes the oldest version by id (only that entry goes). H09-copy-source: CopyObject / UploadPartCopy read their source through the history like GET "
                "(newest version without id, the addressed version with id, refused when the key reads as missing or the id names a delete marker). "
                "H09-suspend: the same oracle over programs that suspend versioning for one operation (the write or delete replaces the null version or marker, versions with ids stay) and enable it again.",
    harnesses=[
        dict(name="H09-program", entry="backend/posix.VfVersions", reach=["program-done", "paged"], **_FS),
        dict(name="H09-copy-source", entry="backend/posix.VfCopyFromHistory", reach=["copy-by-version-id", "copy-of-a-deleted-key", "part-copy-of-a-deleted-key"], **_FS),
        dict(name="H09-suspend", entry="backend/posix.VfVersionsSuspend", reach=["program-done", "paged"], **_FS),
    ],
    assumptions=["file-system model; ULIDs are fresh increasing ids"],
    outside=["programs longer than 2 (quick) / 3 (thorough) operations", "status switches other than enabled -> suspended -> enabled with one operation while suspended (H09-suspend quick: 3-4 operations of put / delete / delete newest by id; thorough: two operations while suspended or a second suspension, 4-5 operations, or all five writer kinds on 3-4 operations)", "version listings over several keys, with delimiter or prefix, page sizes above 2", "delete by id of a version that is neither the newest nor the oldest"],
)

CHECKS["C11"] = dict(
    explanation="posix PutObject (new key / overwrite), DeleteObject, CompleteMultipartUpload, CopyObject (new / existing destination), UploadPart (a second part of an upload; afterwards the upload listing, "
                "the part listing and the object listing show no left-over and the upload stays usable) and, in a bucket with versioning "
                "enabled, overwriting PutObject, DeleteObject and DeleteObject by version id (newest version or marker: the previous one is re-exposed; older version), and PutObject / DeleteObject / CompleteMultipartUpload onto a version with an id in an enabled or suspended bucket (previous version must stay retrievable by id) on the file-system model, killed before an arbitrary file-system step (every step "
                "of the operation is a crash point; no deferred clean-up runs), both temp-file strategies; a fresh Posix value then reads the key: it must "
                "be in its complete previous or complete new state (bytes, length, ETag consistent), an acknowledged upload persists, left-over "
                "temporaries are not listed and block neither re-upload, delete nor bucket deletion.",
    harnesses=[
        dict(name="H11-crash", entry="backend/posix.VfCrash", reach=["crashed", "completed-without-crash"], key_trace=['"crash before'], **_FS),
        dict(name="H11-crash-copy", entry="backend/posix.VfCrashCopy", reach=["crashed", "completed-without-crash"], key_trace=['"crash before'], **_FS),
        dict(name="H11-crash-versioned", entry="backend/posix.VfCrashVersioned", reach=["crashed", "completed-without-crash"], key_trace=['"crash before'], **_FS),
        dict(name="H11-crash-delete-by-id", entry="backend/posix.VfCrashVersionedDeleteByID", reach=["crashed", "completed-without-crash"], key_trace=['"crash before'], **_FS),
        dict(name="H11-crash-versioned-writers", entry="backend/posix.VfCrashVersionedWriters", reach=["crashed", "completed-without-crash"], key_trace=['"crash before'], **_FS),
        dict(name="H11-crash-uploadpart", entry="backend/posix.VfCrashUploadPart", reach=["crashed", "completed-without-crash"], key_trace=['"crash before'], **_FS),
    ],
    assumptions=["file-system model: every completed step is durable (no fsync modelling), no torn writes", "xattr metadata store"],
    outside=["UploadPart crash points other than for part 2 of an upload with one acknowledged part", "versioned buckets: histories longer than two versions, suspended buckets whose current version is the null version; between the link and the removal of the stored copy a re-exposed version is listed twice until the next write (not asserted)",
             "bodies longer than one byte (multi-write data paths)", "sidecar metadata store", "power loss (unsynced data): every completed step is taken as durable"],
)

CHECKS["C05"] = dict(
    explanation="GET versus a writer (overwriting PutObject, DeleteObject, CopyObject from another key, CompleteMultipartUpload) and writer versus a second PutObject on one existing key on the file-system model, possibly through two gateway processes: one of the two "
                "operations runs to completion between two consecutive file-system steps of the other, for every position and both nesting directions; "
                "a successful GET returns exactly one write's complete body with that write's ETag, an overwritten key never reads as missing, a read "
                "after the acknowledged write sees it. H05-delete-by-id: GET versus DeleteObject of the newest version by id in a versioning-enabled bucket "
                "(the GET returns one complete version, never missing; afterwards the previous version is read).",
    harnesses=[
        dict(name="H05-interleave", entry="backend/posix.VfInterleave", reach=["interleaved"], key_trace=['"other operation runs before'], **_FS),
        dict(name="H05-interleave-head", entry="backend/posix.VfInterleaveHead", reach=["interleaved"], key_trace=['"other operation runs before'], **_FS),
        dict(name="H05-delete-by-id", entry="backend/posix.VfInterleaveDeleteByID", reach=["interleaved"], key_trace=['"other operation runs before'], **_FS),
    ],
    assumptions=["file-system model with atomic namespace steps", "schedules in which BOTH operations are split (A1 B1 A2 B2) are not explored"],
    outside=["more than two concurrent operations", "schedules that split both operations", "bodies longer than one (HEAD harness: two) bytes", "versioned buckets other than the overwrite / delete writers of H05-interleave and the delete of the newest version by id (H05-delete-by-id)", "sidecar metadata store"],
)

CHECKS["C17"] = dict(
    explanation="auth.IAMCache (real code: CreateAccount, GetUserAccount, UpdateUserAccount, DeleteUserAccount, icache set/get/update/Delete) over a "
                "reference account store that may refuse updates, with an arbitrary non-decreasing clock: every history of up to 2 (3) admin calls on one "
                "access key followed by a lookup after each call - the lookup returns exactly the store's account (all five attributes) or no-such-user. "
                "H17b: two concurrent requests (create/update/delete/lookup) on one key, the second nested at every store point of the first; a later lookup must "
                "agree with the store. H17c: auth.IAMServiceInternal (real storeIAM/readIAMData/writeTempFile, JSON round trip) on the file-system model: two "
                "concurrent account changes on one or two keys, the second nested at every lock acquisition / file-system step of the first (schedules that "
                "would block on a held lock do not exist); stored accounts and outcomes must equal one sequential order.",
    harnesses=[
        dict(name="H17a-cache", pkgs=["./auth"], entry="auth.VfIAMCache", reach=["lookup-of-existing-account"]),
        dict(name="H17b-race", pkgs=["./auth"], entry="auth.VfIAMRace", reach=["later-lookup-of-existing-account"],
             key_inputs=["first_request", "second_request", "schedule"]),
        dict(name="H17c-filestore", pkgs=["./auth"], entry="auth.VfIAMFile", redirects="spec/redirects_fs.json", reach=["both-requests-returned"],
             key_inputs=["first_request", "second_request", "first_key", "second_key"]),
    ],
    assumptions=["time.Now = arbitrary non-decreasing seconds", "single gateway process, sequential calls"],
    outside=["schedules that split both requests (only: one request runs entirely at a scheduling point of the other, or after it)", "more than two concurrent requests",
             "several gateway processes sharing one account file", "crashes during an account change", "LDAP / Vault / S3 / IPA account stores", "signature check of the request that uses the account (C02)"],
)
