#!/bin/sh
# usage: tools/tryseed.sh <patch.diff> <property id>...   - runs the quick checks against a scratch worktree of /repo HEAD with the patch applied
P=$1; shift
WT=$(mktemp -d /tmp/tryseed.XXXXXX)
rmdir $WT
git -C /repo worktree add --detach $WT -q || exit 2
( cd $WT && git apply "$P" ) || { git -C /repo worktree remove --force $WT; exit 2; }
for id in "$@"; do
  VERIF_REPO=$WT VERIF_EVIDENCE_DIR=$WT.ev timeout 3000 python3 /verif/vcheck.py $id quick 2>&1 | grep -v "^KNOWN" | cut -c1-260 | tail -${TAIL:-6}
done
git -C /repo worktree remove --force $WT; rm -rf $WT.ev
