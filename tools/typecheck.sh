#!/bin/sh
# type-check the harness tree overlaid on /repo (tag zzvfsym); usage: tools/typecheck.sh ./backend/posix ...
export GOFLAGS=-mod=mod GOPROXY=off GOSUMDB=off GOTOOLCHAIN=local
T=$(mktemp -d)
python3 - "$T/ov.json" <<'PY'
import json,os,sys
rep={}
for root,_,files in os.walk('/verif/harness/tree'):
    for f in files:
        real=os.path.join(root,f); rep['/repo'+real[len('/verif/harness/tree'):]]=real
json.dump({"Replace":rep},open(sys.argv[1],'w'))
PY
cd ${VERIF_REPO:-/repo} && go build -tags zzvfsym -overlay "$T/ov.json" "$@"
rc=$?
rm -rf "$T"
exit $rc
