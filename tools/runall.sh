#!/bin/sh
# usage: tools/runall.sh quick|thorough [log]  - runs every claimed check in turn, prints one summary line per property
TIER=${1:-quick}
LOG=${2:-/tmp/runall_$TIER.log}
: > $LOG
for id in $(python3 -c "
import json; print(' '.join(c['property_id'] for c in json.load(open('/verif/MANIFEST.json'))['checks']))"); do
  S=$(date +%s)
  timeout 14400 python3 /verif/vcheck.py $id $TIER > /tmp/runall_$id.out 2>&1
  RC=$?
  echo "$id rc=$RC $(( $(date +%s) - S ))s $(grep -c '^KNOWN-FINDING' /tmp/runall_$id.out) known; $(tail -1 /tmp/runall_$id.out)" >> $LOG
  grep '^VIOLATION\|^PROBLEM' /tmp/runall_$id.out | cut -c1-300 >> $LOG
done
echo DONE >> $LOG
