#!/usr/bin/env python3
# summarise a gose report: violation classes with one sample each, inconclusive reasons (first line only)
import json,sys,collections
d=json.load(open(sys.argv[1]))
print("paths",d['paths'],"reach",d.get('reach'))
cls=collections.OrderedDict()
for v in d.get('violations') or []:
    k=(v.get('Label') or v.get('label'), )
    cls.setdefault(k,[]).append(v)
for k,vs in cls.items():
    print("==",k,len(vs))
    seen=set()
    for v in vs:
        t=tuple(v.get('Trace') or v.get('trace') or [])
        if t in seen: continue
        seen.add(t)
        if len(seen)>int(sys.argv[2]) if len(sys.argv)>2 else len(seen)>4: break
        print("   trace:",list(t)[:8]); print("   inputs:",json.dumps(v.get('Inputs') or v.get('inputs'))[:400])
inc=d.get('inconclusive')
if isinstance(inc,list):
    c=collections.Counter(x.split('\n')[0][:200] for x in inc)
    for k,n in c.items(): print("INCONCLUSIVE",n,k)
