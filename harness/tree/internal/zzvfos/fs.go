// Package zzvfos is the file-system model the posix backend runs on under the symbolic engine (KLEE-style POSIX model
// written in Go and interpreted symbolically). The engine redirects os.*, (*os.File).*, xattr.*, unix.* and
// syscall.Fallocate to the functions here (spec/redirects_fs.json).
//
// Contract assumed: a tree of inodes (directories, regular files) with link counts; namespace operations are atomic;
// extended attributes are a per-inode map; /proc/self/fd/N names the open inode; paths are resolved component by
// component ("." and ".." are honoured, so escapes really escape); errors are the POSIX ones for the modelled state;
// no spontaneous I/O errors.
package zzvfos

import (
	"io"
	"io/fs"
	"os"
	"sort"
	"strconv"
	"strings"
	"syscall"
	"time"
)

type Inode struct {
	ID    int
	Dir   bool
	Kids  map[string]*Inode
	Data  []byte
	Alloc int64 // fallocate'd size (may exceed len(Data))
	Bulk  int64 // bytes of abstract bulk content beyond Data (big files whose bytes are not modelled one by one)
	Xattr map[string][]byte
	Nlink int
	UID   int
	GID   int
	Mode  fs.FileMode
	Mtime int64
	Tag   string // harness label (e.g. "canary")
}

func (n *Inode) Size() int64 {
	sz := int64(len(n.Data)) + n.Bulk
	if n.Alloc > sz {
		return n.Alloc
	}
	return sz
}

type openFile struct {
	Node   *Inode
	Pos    int
	Path   string
	FD     int
	Closed bool
	Proc   bool // the /proc/self/fd directory
	RdPos  int  // directory read position
}

// Access is one entry of the monitor log (used by the confinement checks).
type Access struct {
	Op   string
	Path string
	Node *Inode
	Kind string // read | write | create | remove | lookup
}

type FS struct {
	Root        *Inode // "/"
	Cwd         *Inode // the gateway's root directory (process working directory)
	CwdPath     string
	files       map[*os.File]*openFile
	fds         map[int]*openFile
	nextFD      int
	nextID      int
	Clock       int64
	OTmpfile    bool // O_TMPFILE supported
	CoarseClock bool // all modification times fall into one second (time stamps have one-second granularity)
	Log         []Access
	tmpSeq      int
	Steps       int                   // number of file-system steps executed
	StepHook    func(op, path string) // scheduling / crash hook
}

var M *FS

// New creates "/" with the gateway root "/gw" as working directory.
func New() *FS {
	f := &FS{files: map[*os.File]*openFile{}, fds: map[int]*openFile{}, nextFD: 3, OTmpfile: true}
	f.Root = f.newNode(true)
	gw := f.newNode(true)
	f.Root.Kids["gw"] = gw
	f.Cwd, f.CwdPath = gw, "/gw"
	M = f
	return f
}

func (f *FS) newNode(dir bool) *Inode {
	f.nextID++
	f.Clock++
	n := &Inode{ID: f.nextID, Dir: dir, Xattr: map[string][]byte{}, Nlink: 1, Mtime: f.Clock, Mode: 0o644}
	if dir {
		n.Kids = map[string]*Inode{}
		n.Mode = fs.ModeDir | 0o755
	}
	return n
}

func (f *FS) step(op, path string) {
	f.Steps++
	if f.StepHook != nil {
		f.StepHook(op, path)
	}
}

func (f *FS) note(op, path string, n *Inode, kind string) {
	f.Log = append(f.Log, Access{Op: op, Path: path, Node: n, Kind: kind})
}

func perr(op, path string, e syscall.Errno) error { return &fs.PathError{Op: op, Path: path, Err: e} }

// walk resolves path; it returns the parent directory, the final name and the node (nil if the last component is missing).
func (f *FS) walk(op, path string) (parent *Inode, name string, node *Inode, err error) {
	if path == "" {
		return nil, "", nil, perr(op, path, syscall.ENOENT)
	}
	if strings.HasPrefix(path, "/proc/self/fd/") {
		fd, _ := strconv.Atoi(path[len("/proc/self/fd/"):])
		of := f.fds[fd]
		if of == nil {
			return nil, "", nil, perr(op, path, syscall.ENOENT)
		}
		return nil, "", of.Node, nil
	}
	cur := f.Cwd
	stack := []*Inode{f.Root, f.Cwd}
	if path[0] == '/' {
		cur = f.Root
		stack = []*Inode{f.Root}
	}
	parts := strings.Split(path, "/")
	// drop trailing empty components ("a/b/" names the directory a/b)
	for len(parts) > 0 && parts[len(parts)-1] == "" {
		parts = parts[:len(parts)-1]
	}
	if len(parts) == 0 {
		return nil, "", cur, nil
	}
	for i, p := range parts {
		last := i == len(parts)-1
		switch p {
		case "", ".":
			if last {
				return nil, ".", cur, nil
			}
			continue
		case "..":
			if len(stack) > 1 {
				stack = stack[:len(stack)-1]
			}
			cur = stack[len(stack)-1]
			if last {
				return nil, "..", cur, nil
			}
			continue
		}
		if !cur.Dir {
			return nil, "", nil, perr(op, path, syscall.ENOTDIR)
		}
		if len(p) > 255 {
			return nil, "", nil, perr(op, path, syscall.ENAMETOOLONG)
		}
		next := cur.Kids[p]
		if last {
			return cur, p, next, nil
		}
		if next == nil {
			return nil, "", nil, perr(op, path, syscall.ENOENT)
		}
		cur = next
		stack = append(stack, cur)
	}
	return nil, "", cur, nil
}

// ---- info types

type fileInfo struct {
	name string
	n    *Inode
	size int64
}

func (i *fileInfo) Name() string      { return i.name }
func (i *fileInfo) Size() int64       { return i.size }
func (i *fileInfo) Mode() fs.FileMode { return i.n.Mode }
func (i *fileInfo) ModTime() time.Time {
	if M != nil && M.CoarseClock {
		return time.Unix(1700000000, 0) // every change falls into the same second
	}
	return time.Unix(1700000000+i.n.Mtime, 0)
}
func (i *fileInfo) IsDir() bool  { return i.n.Dir }
func (i *fileInfo) Sys() any     { return &syscall.Stat_t{Uid: uint32(i.n.UID), Gid: uint32(i.n.GID)} }
func (i *fileInfo) Node() *Inode { return i.n }

func base(path string) string {
	p := strings.TrimRight(path, "/")
	if i := strings.LastIndex(p, "/"); i >= 0 {
		return p[i+1:]
	}
	return p
}

func infoOf(path string, n *Inode) fs.FileInfo {
	size := n.Size()
	if n.Dir {
		size = 4096 // a directory inode reports the size of its entry table, not 0
	}
	return &fileInfo{name: base(path), n: n, size: size}
}

// ---- os.* functions

func Stat(name string) (os.FileInfo, error) {
	M.step("stat", name)
	_, _, n, err := M.walk("stat", name)
	if err != nil {
		return nil, err
	}
	if n == nil {
		return nil, perr("stat", name, syscall.ENOENT)
	}
	M.note("stat", name, n, "lookup")
	return infoOf(name, n), nil
}

func Lstat(name string) (os.FileInfo, error) { return Stat(name) }

func (f *FS) open(name string, flag int, perm os.FileMode) (*os.File, error) {
	parent, last, n, err := f.walk("open", name)
	if err != nil {
		return nil, err
	}
	if n == nil {
		if flag&os.O_CREATE == 0 || parent == nil {
			return nil, perr("open", name, syscall.ENOENT)
		}
		n = f.newNode(false)
		n.Mode = perm
		parent.Kids[last] = n
		f.Clock++
		parent.Mtime = f.Clock
		f.note("open", name, n, "create")
	} else {
		if flag&os.O_EXCL != 0 && flag&os.O_CREATE != 0 {
			return nil, perr("open", name, syscall.EEXIST)
		}
		if n.Dir && flag&(os.O_WRONLY|os.O_RDWR) != 0 {
			return nil, perr("open", name, syscall.EISDIR)
		}
		if flag&os.O_TRUNC != 0 && !n.Dir {
			n.Data, n.Alloc = nil, 0
			f.note("open", name, n, "write")
		} else {
			f.note("open", name, n, "read")
		}
	}
	return f.newFile(n, name), nil
}

func (f *FS) newFile(n *Inode, name string) *os.File {
	of := &openFile{Node: n, Path: name, FD: f.nextFD}
	f.nextFD++
	f.fds[of.FD] = of
	h := new(os.File)
	f.files[h] = of
	return h
}

func Open(name string) (*os.File, error) {
	M.step("open", name)
	if name == "/proc/self/fd" {
		h := M.newFile(M.Root, name)
		M.files[h].Proc = true
		return h, nil
	}
	return M.open(name, os.O_RDONLY, 0)
}

func OpenFile(name string, flag int, perm os.FileMode) (*os.File, error) {
	M.step("openfile", name)
	return M.open(name, flag, perm)
}

func Mkdir(name string, perm os.FileMode) error {
	M.step("mkdir", name)
	parent, last, n, err := M.walk("mkdir", name)
	if err != nil {
		return err
	}
	if n != nil {
		return perr("mkdir", name, syscall.EEXIST)
	}
	if parent == nil {
		return perr("mkdir", name, syscall.ENOENT)
	}
	d := M.newNode(true)
	parent.Kids[last] = d
	M.Clock++
	parent.Mtime = M.Clock
	M.note("mkdir", name, d, "create")
	return nil
}

func MkdirAll(path string, perm os.FileMode) error {
	// like os.MkdirAll: create every missing component
	if fi, err := Stat(path); err == nil {
		if fi.IsDir() {
			return nil
		}
		return perr("mkdir", path, syscall.ENOTDIR)
	}
	p := strings.TrimRight(path, "/")
	if i := strings.LastIndex(p, "/"); i > 0 {
		if err := MkdirAll(p[:i], perm); err != nil {
			return err
		}
	}
	err := Mkdir(p, perm)
	if err != nil {
		if fi, serr := Stat(p); serr == nil && fi.IsDir() {
			return nil
		}
		return err
	}
	return nil
}

func Remove(name string) error {
	M.step("remove", name)
	parent, last, n, err := M.walk("remove", name)
	if err != nil {
		return err
	}
	if n == nil || parent == nil {
		return perr("remove", name, syscall.ENOENT)
	}
	if n.Dir && len(n.Kids) > 0 {
		return perr("remove", name, syscall.ENOTEMPTY)
	}
	delete(parent.Kids, last)
	n.Nlink--
	M.Clock++
	parent.Mtime = M.Clock
	M.note("remove", name, n, "remove")
	return nil
}

func RemoveAll(path string) error {
	M.step("removeall", path)
	parent, last, n, err := M.walk("removeall", path)
	if err != nil {
		if pe, ok := err.(*fs.PathError); ok && pe.Err == syscall.ENOENT {
			return nil
		}
		return err
	}
	if n == nil {
		return nil
	}
	if parent == nil {
		// "." / ".." / root: remove the contents
		for k, c := range n.Kids {
			M.noteTree("removeall", path+"/"+k, c)
			delete(n.Kids, k)
		}
		return nil
	}
	M.noteTree("removeall", path, n)
	delete(parent.Kids, last)
	n.Nlink--
	return nil
}

func (f *FS) noteTree(op, path string, n *Inode) {
	f.note(op, path, n, "remove")
	if n.Dir {
		for _, k := range sortedNames(n) {
			f.noteTree(op, path+"/"+k, n.Kids[k])
		}
	}
}

func Rename(oldpath, newpath string) error {
	M.step("rename", newpath)
	op, ol, on, err := M.walk("rename", oldpath)
	if err != nil {
		return err
	}
	if on == nil || op == nil {
		return perr("rename", oldpath, syscall.ENOENT)
	}
	np, nl, nn, err := M.walk("rename", newpath)
	if err != nil {
		return err
	}
	if np == nil {
		return perr("rename", newpath, syscall.ENOENT)
	}
	if nn != nil {
		if nn.Dir && !on.Dir {
			return perr("rename", newpath, syscall.EISDIR)
		}
		if !nn.Dir && on.Dir {
			return perr("rename", newpath, syscall.ENOTDIR)
		}
		if nn.Dir && len(nn.Kids) > 0 {
			return perr("rename", newpath, syscall.ENOTEMPTY)
		}
		nn.Nlink--
		M.note("rename", newpath, nn, "remove")
	}
	delete(op.Kids, ol)
	np.Kids[nl] = on
	M.Clock++
	op.Mtime, np.Mtime = M.Clock, M.Clock
	M.note("rename", oldpath, on, "remove")
	M.note("rename", newpath, on, "create")
	return nil
}

// Link creates newname as a hard link to the file oldname (same inode: data and xattrs are shared).
func Link(oldname, newname string) error {
	M.step("link", newname)
	_, _, on, err := M.walk("link", oldname)
	if err != nil {
		return &os.LinkError{Op: "link", Old: oldname, New: newname, Err: err.(*fs.PathError).Err}
	}
	if on == nil {
		return &os.LinkError{Op: "link", Old: oldname, New: newname, Err: syscall.ENOENT}
	}
	if on.Dir {
		return &os.LinkError{Op: "link", Old: oldname, New: newname, Err: syscall.EPERM}
	}
	np, nl, nn, err := M.walk("link", newname)
	if err != nil {
		return &os.LinkError{Op: "link", Old: oldname, New: newname, Err: err.(*fs.PathError).Err}
	}
	if np == nil {
		return &os.LinkError{Op: "link", Old: oldname, New: newname, Err: syscall.ENOENT}
	}
	if nn != nil {
		return &os.LinkError{Op: "link", Old: oldname, New: newname, Err: syscall.EEXIST}
	}
	np.Kids[nl] = on
	on.Nlink++
	M.Clock++
	np.Mtime = M.Clock
	M.note("link", newname, on, "create")
	return nil
}

func sortedNames(n *Inode) []string {
	names := make([]string, 0, len(n.Kids))
	for k := range n.Kids {
		names = append(names, k)
	}
	sort.Strings(names)
	return names
}

func ReadDir(name string) ([]os.DirEntry, error) {
	M.step("readdir", name)
	_, _, n, err := M.walk("readdir", name)
	if err != nil {
		return nil, err
	}
	if n == nil {
		return nil, perr("open", name, syscall.ENOENT)
	}
	if !n.Dir {
		return nil, perr("readdir", name, syscall.ENOTDIR)
	}
	M.note("readdir", name, n, "read")
	var out []os.DirEntry
	for _, k := range sortedNames(n) {
		out = append(out, fs.FileInfoToDirEntry(infoOf(k, n.Kids[k])))
	}
	return out, nil
}

func ReadFile(name string) ([]byte, error) {
	f, err := Open(name)
	if err != nil {
		return nil, err
	}
	defer FileClose(f)
	of := M.files[f]
	if of.Node.Dir {
		return nil, perr("read", name, syscall.EISDIR)
	}
	return append([]byte{}, of.Node.Data...), nil
}

func WriteFile(name string, data []byte, perm os.FileMode) error {
	f, err := OpenFile(name, os.O_WRONLY|os.O_CREATE|os.O_TRUNC, perm)
	if err != nil {
		return err
	}
	_, err = FileWrite(f, data)
	FileClose(f)
	return err
}

func CreateTemp(dir, pattern string) (*os.File, error) {
	M.step("createtemp", dir)
	if dir == "" {
		dir = "/tmp"
	}
	_, _, d, err := M.walk("open", dir)
	if err != nil {
		return nil, err
	}
	if d == nil || !d.Dir {
		return nil, perr("open", dir, syscall.ENOENT)
	}
	M.tmpSeq++
	name := strings.Replace(pattern, "*", "", 1) + "tmp" + strconv.Itoa(M.tmpSeq)
	n := M.newNode(false)
	n.Mode = 0o600
	d.Kids[name] = n
	p := strings.TrimRight(dir, "/") + "/" + name
	M.note("createtemp", p, n, "create")
	return M.newFile(n, p), nil
}

func Chown(name string, uid, gid int) error {
	_, _, n, err := M.walk("chown", name)
	if err != nil {
		return err
	}
	if n == nil {
		return perr("chown", name, syscall.ENOENT)
	}
	n.UID, n.GID = uid, gid
	return nil
}

func Chdir(dir string) error { return nil }
func Geteuid() int           { return 0 }
func Getegid() int           { return 0 }

// NewFile binds an *os.File to a descriptor obtained from UnixOpen.
func NewFile(fd uintptr, name string) *os.File {
	of := M.fds[int(fd)]
	if of == nil {
		return nil
	}
	of.Path = name
	h := new(os.File)
	M.files[h] = of
	return h
}

// ---- (*os.File) methods

func of(f *os.File) *openFile {
	o := M.files[f]
	if o == nil {
		panic("zzvfos: use of an *os.File the model did not create")
	}
	return o
}

func FileName(f *os.File) string { return of(f).Path }
func FileFd(f *os.File) uintptr  { return uintptr(of(f).FD) }

func FileClose(f *os.File) error {
	if f == nil {
		return os.ErrInvalid
	}
	o := of(f)
	if o.Closed {
		return &fs.PathError{Op: "close", Path: o.Path, Err: os.ErrClosed}
	}
	M.step("close", o.Path)
	o.Closed = true
	delete(M.fds, o.FD)
	return nil
}

func FileStat(f *os.File) (os.FileInfo, error) {
	o := of(f)
	return infoOf(o.Path, o.Node), nil
}

func FileRead(f *os.File, p []byte) (int, error) {
	o := of(f)
	if o.Node.Dir {
		return 0, perr("read", o.Path, syscall.EISDIR)
	}
	size := int(o.Node.Size())
	if o.Pos >= size {
		return 0, io.EOF
	}
	n := 0
	for n < len(p) && o.Pos < size {
		if o.Pos < len(o.Node.Data) {
			p[n] = o.Node.Data[o.Pos]
		} else {
			p[n] = 0 // fallocate'd tail
		}
		n++
		o.Pos++
	}
	M.note("read", o.Path, o.Node, "read")
	return n, nil
}

func FileReadAt(f *os.File, p []byte, off int64) (int, error) {
	o := of(f)
	size := o.Node.Size()
	n := 0
	for n < len(p) && off+int64(n) < size {
		i := int(off) + n
		if i < len(o.Node.Data) {
			p[n] = o.Node.Data[i]
		} else {
			p[n] = 0
		}
		n++
	}
	M.note("read", o.Path, o.Node, "read")
	if n < len(p) {
		return n, io.EOF
	}
	return n, nil
}

func FileWrite(f *os.File, p []byte) (int, error) {
	o := of(f)
	if o.Closed {
		return 0, &fs.PathError{Op: "write", Path: o.Path, Err: os.ErrClosed}
	}
	M.step("write", o.Path)
	for o.Pos > len(o.Node.Data) {
		o.Node.Data = append(o.Node.Data, 0)
	}
	o.Node.Data = append(o.Node.Data[:o.Pos], p...)
	o.Pos += len(p)
	M.Clock++
	o.Node.Mtime = M.Clock
	M.note("write", o.Path, o.Node, "write")
	return len(p), nil
}

func FileSeek(f *os.File, offset int64, whence int) (int64, error) {
	o := of(f)
	switch whence {
	case io.SeekStart:
		o.Pos = int(offset)
	case io.SeekCurrent:
		o.Pos += int(offset)
	case io.SeekEnd:
		o.Pos = int(o.Node.Size()) + int(offset)
	}
	return int64(o.Pos), nil
}

// FileWriteTo / FileReadFrom: io.Copy prefers these on *os.File.
func FileWriteTo(f *os.File, w io.Writer) (int64, error) {
	// file-to-file copies move content wholesale (bulk content cannot be read byte by byte)
	if dst, ok := w.(*os.File); ok {
		if d := M.files[dst]; d != nil {
			src := of(f)
			M.step("copy", d.Path)
			rest := src.Node.Data
			if src.Pos < len(rest) {
				rest = rest[src.Pos:]
			} else {
				rest = nil
			}
			d.Node.Data = append(d.Node.Data, rest...)
			d.Node.Bulk += src.Node.Bulk
			d.Pos = len(d.Node.Data)
			n := int64(len(rest)) + src.Node.Bulk
			src.Pos = len(src.Node.Data)
			M.note("read", src.Path, src.Node, "read")
			M.note("write", d.Path, d.Node, "write")
			return n, nil
		}
	}
	if of(f).Node.Bulk > 0 {
		panic("zzvfos: byte-wise read of a file with bulk content")
	}
	var total int64
	buf := make([]byte, 8)
	for {
		n, err := FileRead(f, buf)
		if n > 0 {
			m, werr := w.Write(buf[:n])
			total += int64(m)
			if werr != nil {
				return total, werr
			}
		}
		if err == io.EOF {
			return total, nil
		}
		if err != nil {
			return total, err
		}
	}
}

func FileReadFrom(f *os.File, r io.Reader) (int64, error) {
	var total int64
	buf := make([]byte, 8)
	for {
		n, err := r.Read(buf)
		if n > 0 {
			m, werr := FileWrite(f, buf[:n])
			total += int64(m)
			if werr != nil {
				return total, werr
			}
		}
		if err == io.EOF {
			return total, nil
		}
		if err != nil {
			return total, err
		}
	}
}

func FileChown(f *os.File, uid, gid int) error {
	o := of(f)
	o.Node.UID, o.Node.GID = uid, gid
	return nil
}

func FileChmod(f *os.File, mode os.FileMode) error {
	of(f).Node.Mode = mode
	return nil
}

func FileSync(f *os.File) error { return nil }

func FileTruncate(f *os.File, size int64) error {
	o := of(f)
	if int(size) < len(o.Node.Data) {
		o.Node.Data = o.Node.Data[:size]
	}
	o.Node.Alloc = size
	return nil
}

func FileReadDir(f *os.File, n int) ([]os.DirEntry, error) {
	o := of(f)
	if !o.Node.Dir {
		return nil, perr("readdir", o.Path, syscall.ENOTDIR)
	}
	names := sortedNames(o.Node)
	var out []os.DirEntry
	for o.RdPos < len(names) && (n <= 0 || len(out) < n) {
		k := names[o.RdPos]
		out = append(out, fs.FileInfoToDirEntry(infoOf(k, o.Node.Kids[k])))
		o.RdPos++
	}
	if n > 0 && len(out) == 0 {
		return nil, io.EOF
	}
	return out, nil
}

func FileReaddirnames(f *os.File, n int) ([]string, error) {
	ents, err := FileReadDir(f, n)
	var out []string
	for _, e := range ents {
		out = append(out, e.Name())
	}
	return out, err
}

// ---- os.DirFS

type dirFS struct{ base string }

func DirFS(dir string) fs.FS { return dirFS{dir} }

type fsFile struct {
	h *os.File
}

func (f fsFile) Stat() (fs.FileInfo, error)           { return FileStat(f.h) }
func (f fsFile) Read(p []byte) (int, error)           { return FileRead(f.h, p) }
func (f fsFile) Close() error                         { return FileClose(f.h) }
func (f fsFile) ReadDir(n int) ([]fs.DirEntry, error) { return FileReadDir(f.h, n) }

func (d dirFS) join(name string) (string, error) {
	if !fs.ValidPath(name) {
		return "", &fs.PathError{Op: "open", Path: name, Err: fs.ErrInvalid}
	}
	if name == "." {
		return d.base, nil
	}
	return d.base + "/" + name, nil
}

func (d dirFS) Open(name string) (fs.File, error) {
	p, err := d.join(name)
	if err != nil {
		return nil, err
	}
	h, err := Open(p)
	if err != nil {
		return nil, err
	}
	return fsFile{h}, nil
}

func (d dirFS) ReadDir(name string) ([]fs.DirEntry, error) {
	p, err := d.join(name)
	if err != nil {
		return nil, err
	}
	return ReadDir(p)
}

func (d dirFS) Stat(name string) (fs.FileInfo, error) {
	p, err := d.join(name)
	if err != nil {
		return nil, err
	}
	return Stat(p)
}

// ---- syscalls

const oTMPFILE = 0x410000

func UnixOpen(path string, mode int, perm uint32) (int, error) {
	M.step("open(O_TMPFILE)", path)
	if mode&oTMPFILE == oTMPFILE {
		if !M.OTmpfile {
			return -1, syscall.EOPNOTSUPP
		}
		_, _, d, err := M.walk("open", path)
		if err != nil {
			return -1, err.(*fs.PathError).Err
		}
		if d == nil {
			return -1, syscall.ENOENT
		}
		if !d.Dir {
			return -1, syscall.ENOTDIR
		}
		n := M.newNode(false)
		n.Nlink = 0
		of := &openFile{Node: n, Path: path, FD: M.nextFD}
		M.nextFD++
		M.fds[of.FD] = of
		M.note("open(O_TMPFILE)", path, n, "create")
		return of.FD, nil
	}
	return -1, syscall.ENOSYS
}

func UnixLinkat(olddirfd int, oldpath string, newdirfd int, newpath string, flags int) error {
	M.step("linkat", newpath)
	fd, err := strconv.Atoi(oldpath)
	if err != nil {
		return syscall.ENOENT
	}
	src := M.fds[fd]
	dir := M.fds[newdirfd]
	if src == nil || dir == nil {
		return syscall.EBADF
	}
	if !dir.Node.Dir {
		return syscall.ENOTDIR
	}
	if _, exists := dir.Node.Kids[newpath]; exists {
		return syscall.EEXIST
	}
	dir.Node.Kids[newpath] = src.Node
	src.Node.Nlink++
	M.Clock++
	dir.Node.Mtime = M.Clock
	M.note("linkat", dir.Path+"/"+newpath, src.Node, "create")
	return nil
}

func Fallocate(fd int, mode uint32, off int64, length int64) error {
	of := M.fds[fd]
	if of == nil {
		return syscall.EBADF
	}
	if mode == 0 && off+length > of.Node.Alloc {
		of.Node.Alloc = off + length
	}
	return nil
}

func Getpid() int { return 4242 }

// SameFile reports whether the two FileInfos describe the same inode (os.SameFile).
func SameFile(a, b os.FileInfo) bool {
	x, ok1 := a.(*fileInfo)
	y, ok2 := b.(*fileInfo)
	return ok1 && ok2 && x.n == y.n
}

// Chtimes sets the modification time of the named file (access times are not modelled).
func Chtimes(name string, atime, mtime time.Time) error {
	M.step("chtimes", name)
	_, _, n, err := M.walk("chtimes", name)
	if err != nil {
		return err
	}
	if n == nil {
		return perr("chtimes", name, syscall.ENOENT)
	}
	n.Mtime = mtime.Unix() - 1700000000
	M.note("chtimes", name, n, "write")
	return nil
}
