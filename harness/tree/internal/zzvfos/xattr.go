package zzvfos

import (
	"os"
	"sort"
	"syscall"

	"github.com/pkg/xattr"
)

func xerr(op, path, name string, e error) error {
	return &xattr.Error{Op: op, Path: path, Name: name, Err: e}
}

func (f *FS) nodeOf(op, path string) (*Inode, error) {
	_, _, n, err := f.walk(op, path)
	if err != nil {
		return nil, err
	}
	if n == nil {
		return nil, perr(op, path, syscall.ENOENT)
	}
	return n, nil
}

func XattrGet(path, name string) ([]byte, error) {
	M.step("getxattr", path)
	n, err := M.nodeOf("xattr.get", path)
	if err != nil {
		return nil, xerr("xattr.get", path, name, err.(*os.PathError).Err)
	}
	M.note("getxattr", path, n, "read")
	v, ok := n.Xattr[name]
	if !ok {
		return nil, xerr("xattr.get", path, name, xattr.ENOATTR)
	}
	return append([]byte{}, v...), nil
}

func XattrSet(path, name string, data []byte) error {
	M.step("setxattr", path)
	n, err := M.nodeOf("xattr.set", path)
	if err != nil {
		return xerr("xattr.set", path, name, err.(*os.PathError).Err)
	}
	M.note("setxattr", path, n, "write")
	n.Xattr[name] = append([]byte{}, data...)
	return nil
}

func XattrRemove(path, name string) error {
	M.step("removexattr", path)
	n, err := M.nodeOf("xattr.remove", path)
	if err != nil {
		return xerr("xattr.remove", path, name, err.(*os.PathError).Err)
	}
	M.note("removexattr", path, n, "write")
	if _, ok := n.Xattr[name]; !ok {
		return xerr("xattr.remove", path, name, xattr.ENOATTR)
	}
	delete(n.Xattr, name)
	return nil
}

func XattrList(path string) ([]string, error) {
	M.step("listxattr", path)
	n, err := M.nodeOf("xattr.list", path)
	if err != nil {
		return nil, xerr("xattr.list", path, "", err.(*os.PathError).Err)
	}
	M.note("listxattr", path, n, "read")
	var out []string
	for k := range n.Xattr {
		out = append(out, k)
	}
	sort.Strings(out)
	return out, nil
}

func XattrFGet(f *os.File, name string) ([]byte, error) {
	o := of(f)
	M.step("fgetxattr", o.Path)
	v, ok := o.Node.Xattr[name]
	if !ok {
		return nil, xerr("xattr.fget", o.Path, name, xattr.ENOATTR)
	}
	return append([]byte{}, v...), nil
}

func XattrFSet(f *os.File, name string, data []byte) error {
	o := of(f)
	M.step("fsetxattr", o.Path)
	o.Node.Xattr[name] = append([]byte{}, data...)
	M.note("fsetxattr", o.Path, o.Node, "write")
	return nil
}
