//go:build zzvfsym

package zzvf

import "hash"

// Hash is the model of every hash.Hash the gateway uses: an uninterpreted function of the
// byte sequence written so far (functional consistency; collision freedom only where a harness asks).
type Hash struct {
	Kind string
	N    int
	Key  []byte
	Data []byte
}

func (h *Hash) Write(p []byte) (int, error) {
	h.Data = append(h.Data, p...)
	return len(p), nil
}

func (h *Hash) Sum(b []byte) []byte {
	var out []byte
	if h.Key != nil {
		out = UF(h.Kind, h.N, h.Key, h.Data)
	} else {
		out = UF(h.Kind, h.N, h.Data)
	}
	return append(b, out...)
}

func (h *Hash) Reset()         { h.Data = nil }
func (h *Hash) Size() int      { return h.N }
func (h *Hash) BlockSize() int { return 64 }

// crc32/crc64 flavours also offer Sum32/Sum64 (not used by the gateway's readers)

func NewMD5() hash.Hash    { return &Hash{Kind: "md5", N: 16} }
func NewSHA1() hash.Hash   { return &Hash{Kind: "sha1", N: 20} }
func NewSHA256() hash.Hash { return &Hash{Kind: "sha256", N: 32} }

type Hash32 struct{ Hash }

func (h *Hash32) Sum32() uint32 {
	b := h.Sum(nil)
	return uint32(b[0])<<24 | uint32(b[1])<<16 | uint32(b[2])<<8 | uint32(b[3])
}

type Hash64 struct{ Hash }

func (h *Hash64) Sum64() uint64 {
	b := h.Sum(nil)
	var r uint64
	for i := 0; i < 8; i++ {
		r = r<<8 | uint64(b[i])
	}
	return r
}

func NewCRC32IEEE() hash.Hash32 { return &Hash32{Hash{Kind: "crc32", N: 4}} }

// NewCRC32 stands for crc32.New(table): the only other table the gateway uses is Castagnoli.
func NewCRC32(tab any) hash.Hash32 { return &Hash32{Hash{Kind: "crc32c", N: 4}} }
func NewCRC64(tab any) hash.Hash64 { return &Hash64{Hash{Kind: "crc64nvme", N: 8}} }
func MakeTable(poly any) any       { return nil }

func NewHMAC(h func() hash.Hash, key []byte) hash.Hash {
	k := make([]byte, len(key))
	copy(k, key)
	return &Hash{Kind: "hmac-sha256", N: 32, Key: k}
}

func Sum256(data []byte) (out [32]byte) {
	copy(out[:], UF("sha256", 32, data))
	return
}

func SumMD5(data []byte) (out [16]byte) {
	copy(out[:], UF("md5", 16, data))
	return
}

// AssumeCollisionFree makes the named uninterpreted function injective on the inputs of this path.
func AssumeCollisionFree(name string) {}
