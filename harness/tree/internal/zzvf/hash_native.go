//go:build !zzvfsym

package zzvf

import (
	"crypto/hmac"
	"crypto/md5"
	"crypto/sha1"
	"crypto/sha256"
	"hash"
)

// Native counterparts of the hash models: the real functions (used when a counterexample is replayed natively).
func NewMD5() hash.Hash                                { return md5.New() }
func NewSHA1() hash.Hash                               { return sha1.New() }
func NewSHA256() hash.Hash                             { return sha256.New() }
func NewHMAC(h func() hash.Hash, key []byte) hash.Hash { return hmac.New(h, key) }
func Sum256(data []byte) [32]byte                      { return sha256.Sum256(data) }
func SumMD5(data []byte) [16]byte                      { return md5.Sum(data) }
func AssumeCollisionFree(name string)                  {}
