// Package zzvf is the harness API. Under the symbolic engine every function here is
// intercepted (its body is never run); natively the same functions read a JSON
// assignment (file named by $ZZVF_ASSIGN) so that a solver model can be replayed
// against the real build with `go test -overlay`.
package zzvf

import (
	"bytes"
	"encoding/hex"
	"encoding/json"
	"fmt"
	"os"
	"reflect"
	"sync"
)

var (
	mu       sync.Mutex
	assign   map[string]any
	counts   = map[string]int{}
	Failures []string
	Reached  []string
	TraceLog []string
)

func load() {
	if assign != nil {
		return
	}
	assign = map[string]any{}
	if f := os.Getenv("ZZVF_ASSIGN"); f != "" {
		b, err := os.ReadFile(f)
		if err != nil {
			panic(err)
		}
		dec := json.NewDecoder(bytes.NewReader(b))
		dec.UseNumber()
		if err := dec.Decode(&assign); err != nil {
			panic(err)
		}
	}
}

// ResetNative clears per-run state (native replays only).
func ResetNative(a map[string]any) {
	mu.Lock()
	defer mu.Unlock()
	assign = a
	counts = map[string]int{}
	Failures, Reached, TraceLog = nil, nil, nil
}

func fresh(name string) string {
	n := counts[name]
	counts[name] = n + 1
	if n == 0 {
		return name
	}
	return fmt.Sprintf("%s#%d", name, n)
}

func num(name string) int64 {
	mu.Lock()
	defer mu.Unlock()
	load()
	v, ok := assign[fresh(name)]
	if !ok {
		return 0
	}
	switch x := v.(type) {
	case float64:
		return int64(x)
	case json.Number:
		i, _ := x.Int64()
		return i
	case int64:
		return x
	case int:
		return int64(x)
	case bool:
		if x {
			return 1
		}
	case string:
		var i int64
		fmt.Sscan(x, &i)
		return i
	}
	return 0
}

func raw(name string) []byte {
	mu.Lock()
	defer mu.Unlock()
	load()
	n := fresh(name)
	if h, ok := assign[n+"$hex"].(string); ok {
		b, _ := hex.DecodeString(h)
		return b
	}
	if s, ok := assign[n].(string); ok {
		return []byte(s)
	}
	return nil
}

func Bool(name string) bool                { return num(name) != 0 }
func Int64(name string) int64              { return num(name) }
func Int(name string) int                  { return int(num(name)) }
func Int32(name string) int32              { return int32(num(name)) }
func Byte(name string) byte                { return byte(num(name)) }
func IntRange(name string, lo, hi int) int { return int(num(name)) }
func IntCase(name string, lo, hi int) int  { return lo + int(num(name)) }
func Choice(name string, n int) int        { return int(num(name)) }

func String(name string, maxLen int) string {
	num(name + "$len")
	return string(raw(name))
}
func StringN(name string, n int) string { return string(pad(raw(name), n)) }
func Bytes(name string, maxLen int) []byte {
	num(name + "$len")
	return raw(name)
}
func BytesN(name string, n int) []byte { return pad(raw(name), n) }

func pad(b []byte, n int) []byte {
	for len(b) < n {
		b = append(b, 0)
	}
	return b[:n]
}

type assumeFailed struct{}

// Assume: natively a violated assumption means the assignment does not belong to this path.
func Assume(c bool) {
	if !c {
		panic(assumeFailed{})
	}
}

func Assert(c bool, label string) {
	if !c {
		mu.Lock()
		Failures = append(Failures, label)
		mu.Unlock()
	}
}
func Fail(label string)        { Assert(false, label) }
func Reach(label string)       { mu.Lock(); Reached = append(Reached, label); mu.Unlock() }
func Bound(name string, v int) {}

func And(a ...bool) bool {
	for _, x := range a {
		if !x {
			return false
		}
	}
	return true
}
func Or(a ...bool) bool {
	for _, x := range a {
		if x {
			return true
		}
	}
	return false
}
func Not(a bool) bool        { return !a }
func Implies(a, b bool) bool { return !a || b }
func IteInt(c bool, a, b int) int {
	if c {
		return a
	}
	return b
}
func IteInt64(c bool, a, b int64) int64 {
	if c {
		return a
	}
	return b
}
func StrEq(a, b string) bool       { return a == b }
func BytesEq(a, b []byte) bool     { return string(a) == string(b) }
func IsSymbolic() bool             { return false }
func Trace(args ...any)            { mu.Lock(); TraceLog = append(TraceLog, fmt.Sprint(args...)); mu.Unlock() }
func Concretize(x, lo, hi int) int { return x }
func Describe(s string) string     { return s }

var lastPanic string

// Recover runs f and reports whether it panicked.
func Recover(f func()) (panicked bool) {
	defer func() {
		if r := recover(); r != nil {
			if _, ok := r.(assumeFailed); ok {
				panic(r)
			}
			lastPanic = fmt.Sprint(r)
			panicked = true
		}
	}()
	f()
	return false
}
func LastPanic() string { return lastPanic }

// UF natively is not available (models of uninterpreted functions are not replayable).
func UF(name string, n int, args ...any) []byte { panic("zzvf.UF has no native meaning") }

// RunNative runs a harness entry natively and reports the assertion labels that failed.
func RunNative(entry func()) (failures []string, assumeViolated bool) {
	defer func() {
		if r := recover(); r != nil {
			if _, ok := r.(assumeFailed); ok {
				assumeViolated = true
				failures = Failures
				return
			}
			failures = append(Failures, "PANIC: "+fmt.Sprint(r))
		}
	}()
	entry()
	return Failures, false
}

// Tier is 0 for the quick tier and 1 for the thorough tier ($VERIF_TIER).
func Tier() int {
	if os.Getenv("VERIF_TIER") == "thorough" {
		return 1
	}
	return 0
}

// Havoc fills *ptr with an arbitrary value of its type (engine only; natively a no-op).
func Havoc(ptr any, name string) { havocNative(reflect.ValueOf(ptr), 0) }

// OpaqueBytes stands for an encoded document whose bytes are not modelled.
func OpaqueBytes(kind string) []byte { return []byte(kind) }

// havocNative: natively an "arbitrary value" is the zero value with every pointer allocated (so that code that
// relies on the backend contract "outputs are non-nil" behaves as under the engine).
func havocNative(v reflect.Value, depth int) {
	if depth > 6 {
		return
	}
	switch v.Kind() {
	case reflect.Ptr:
		if v.IsNil() && v.CanSet() {
			v.Set(reflect.New(v.Type().Elem()))
		}
		if !v.IsNil() {
			havocNative(v.Elem(), depth+1)
		}
	case reflect.Struct:
		for i := 0; i < v.NumField(); i++ {
			if v.Type().Field(i).IsExported() {
				havocNative(v.Field(i), depth+1)
			}
		}
	}
}

// Abort stops the running operation like a process kill (no deferred function runs); CatchAbort(f) runs f and reports
// whether it was aborted. Engine only.
func Abort() { panic("zzvf.Abort has no native meaning") }

// OnLock registers f to be called before every sync.Mutex / sync.RWMutex Lock and RLock of the code under test (a
// scheduling point: the harness may run another request there); nil unregisters. f is not re-entered. Engine only.
func OnLock(f func(op string)) {}
func CatchAbort(f func()) bool {
	f()
	return false
}
