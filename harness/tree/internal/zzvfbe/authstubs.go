package zzvfbe

import (
	"context"

	"github.com/aws/aws-sdk-go-v2/service/s3/types"
	"github.com/versity/versitygw/auth"
	"github.com/versity/versitygw/backend"
	"github.com/versity/versitygw/internal/zzvf"
	"github.com/versity/versitygw/s3err"
)

// Recording stand-ins for the access decision functions (used by the route typestate checks: what is decided
// is *that* the right decision is asked for before the backend is touched; the decision functions themselves are
// checked separately on their real code).

type AccessCheck struct {
	Kind       string // access | copy | lock
	Opts       auth.AccessOptions
	CopySource string
	Objects    []types.ObjectIdentifier
	Bypass     bool
	Granted    bool
	At         int // number of backend calls made before the check
}

var Checks []AccessCheck

func ResetChecks() { Checks = nil }

func decide(name string) error {
	if zzvf.Choice(name+"$denied", 2) == 1 {
		return s3err.GetAPIError(s3err.ErrAccessDenied)
	}
	return nil
}

func ncalls(be backend.Backend) int {
	if r, ok := be.(*Recorder); ok {
		return len(r.Calls)
	}
	return 0
}

func StubVerifyAccess(ctx context.Context, be backend.Backend, opts auth.AccessOptions) error {
	err := decide("access")
	Checks = append(Checks, AccessCheck{Kind: "access", Opts: opts, Granted: err == nil, At: ncalls(be)})
	zzvf.Trace("check " + string(opts.Action))
	return err
}

func StubVerifyObjectCopyAccess(ctx context.Context, be backend.Backend, copySource string, opts auth.AccessOptions) error {
	err := decide("copyaccess")
	Checks = append(Checks, AccessCheck{Kind: "copy", Opts: opts, CopySource: copySource, Granted: err == nil, At: ncalls(be)})
	zzvf.Trace("copycheck " + string(opts.Action))
	return err
}

func StubCheckObjectAccess(ctx context.Context, bucket, userAccess string, objects []types.ObjectIdentifier, bypass bool, be backend.Backend) error {
	err := decide("lock")
	Checks = append(Checks, AccessCheck{Kind: "lock", Opts: auth.AccessOptions{Bucket: bucket}, Objects: objects, Bypass: bypass, Granted: err == nil, At: ncalls(be)})
	zzvf.Trace("lockcheck")
	return err
}
