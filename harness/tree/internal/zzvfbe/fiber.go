// Package zzvfbe holds the harness-side environment models that need repository or third-party types:
// the fiber/fasthttp request context, the recording backend, the recording event sender.
// The engine redirects calls of the real fiber/fasthttp methods to the functions in this file
// (see /verif/spec/redirects_ctrl.json); natively this package is only type-checked.
package zzvfbe

import (
	"io"
	"strconv"
	"strings"

	"github.com/gofiber/fiber/v2"
	"github.com/valyala/fasthttp"
)

// Req is the model of one HTTP request as the handlers can observe it.
type Req struct {
	Method string
	Path   string // decoded path as installed by the URL decoder
	Params map[string]string
	Body   []byte
	Stream io.Reader // request body stream (big-data actions)

	headers    map[string]string
	headersAbs map[string]bool
	HeaderKeys []string
	query      map[string]string
	queryAbs   map[string]bool
	QueryKeys  []string
	Locals     map[string]any

	// generators decide lazily what a header / query parameter / route parameter holds
	HeaderGen func(lowerKey string) (value string, present bool)
	QueryGen  func(key string) (value string, present bool)
	ParamGen  func(key string) string
}

// Resp records what the handler did to the response.
type Resp struct {
	Status     int
	Headers    map[string]string
	Body       []byte
	Sends      int
	Stream     io.Reader
	StreamSize int
	StreamSet  bool
	NextCalls  int
}

var (
	R *Req
	W *Resp

	theReqCtx   = new(fasthttp.RequestCtx)
	theRequest  = new(fasthttp.Request)
	theResponse = new(fasthttp.Response)
	theURI      = new(fasthttp.URI)
	theArgs     = new(fasthttp.Args)
)

// NewRequest resets the model to an empty request and returns the context handlers are called with.
func NewRequest() *fiber.Ctx {
	R = &Req{Params: map[string]string{}, headers: map[string]string{}, headersAbs: map[string]bool{},
		query: map[string]string{}, queryAbs: map[string]bool{}, Locals: map[string]any{}}
	W = &Resp{Status: 200, Headers: map[string]string{}}
	return new(fiber.Ctx)
}

func (r *Req) SetHeader(key, val string) {
	k := strings.ToLower(key)
	if _, ok := r.headers[k]; !ok {
		r.HeaderKeys = append(r.HeaderKeys, k)
	}
	r.headers[k] = val
}

func (r *Req) SetQuery(key, val string) {
	if _, ok := r.query[key]; !ok {
		r.QueryKeys = append(r.QueryKeys, key)
	}
	r.query[key] = val
}

func (r *Req) header(key string) (string, bool) {
	k := strings.ToLower(key)
	if v, ok := r.headers[k]; ok {
		return v, true
	}
	if r.headersAbs[k] || r.HeaderGen == nil {
		return "", false
	}
	v, present := r.HeaderGen(k)
	if !present {
		r.headersAbs[k] = true
		return "", false
	}
	r.SetHeader(k, v)
	return v, true
}

func (r *Req) queryVal(key string) (string, bool) {
	if v, ok := r.query[key]; ok {
		return v, true
	}
	if r.queryAbs[key] || r.QueryGen == nil {
		return "", false
	}
	v, present := r.QueryGen(key)
	if !present {
		r.queryAbs[key] = true
		return "", false
	}
	r.SetQuery(key, v)
	return v, true
}

// ---- (*fiber.Ctx) methods

func CtxGet(c *fiber.Ctx, key string, defaultValue ...string) string {
	if v, ok := R.header(key); ok && v != "" {
		return v
	}
	if len(defaultValue) > 0 {
		return defaultValue[0]
	}
	return ""
}

func CtxQuery(c *fiber.Ctx, key string, defaultValue ...string) string {
	if v, ok := R.queryVal(key); ok && v != "" {
		return v
	}
	if len(defaultValue) > 0 {
		return defaultValue[0]
	}
	return ""
}

func CtxQueryInt(c *fiber.Ctx, key string, defaultValue ...int) int {
	v, _ := R.queryVal(key)
	n, err := strconv.Atoi(v)
	if err != nil {
		if len(defaultValue) > 0 {
			return defaultValue[0]
		}
		return 0
	}
	return n
}

func CtxParams(c *fiber.Ctx, key string, defaultValue ...string) string {
	if v, ok := R.Params[key]; ok {
		return v
	}
	if R.ParamGen != nil {
		v := R.ParamGen(key)
		R.Params[key] = v
		if v != "" {
			return v
		}
	}
	if len(defaultValue) > 0 {
		return defaultValue[0]
	}
	return ""
}

func CtxLocals(c *fiber.Ctx, key any, value ...any) any {
	k := key.(string)
	if len(value) > 0 {
		R.Locals[k] = value[0]
		return value[0]
	}
	return R.Locals[k]
}

func CtxBody(c *fiber.Ctx) []byte { return R.Body }

func CtxPath(c *fiber.Ctx, override ...string) string {
	if len(override) > 0 {
		R.Path = override[0]
	}
	return R.Path
}

func CtxMethod(c *fiber.Ctx, override ...string) string {
	if len(override) > 0 {
		R.Method = override[0]
	}
	return R.Method
}

func CtxNext(c *fiber.Ctx) error {
	W.NextCalls++
	return nil
}

func CtxSend(c *fiber.Ctx, body []byte) error {
	W.Body = body
	W.Sends++
	return nil
}

func CtxStatus(c *fiber.Ctx, status int) *fiber.Ctx {
	W.Status = status
	return c
}

func CtxSendStatus(c *fiber.Ctx, status int) error {
	W.Status = status
	W.Sends++
	return nil
}

func CtxSet(c *fiber.Ctx, key, val string)                          { W.Headers[key] = val }
func CtxContext(c *fiber.Ctx) *fasthttp.RequestCtx                  { return theReqCtx }
func CtxRequest(c *fiber.Ctx) *fasthttp.Request                     { return theRequest }
func CtxResponse(c *fiber.Ctx) *fasthttp.Response                   { return theResponse }
func CtxIP(c *fiber.Ctx) string                                     { return "10.0.0.1" }
func CtxHostname(c *fiber.Ctx) string                               { return "gateway.test" }
func CtxProtocol(c *fiber.Ctx) string                               { return "http" }
func CtxOriginalURL(c *fiber.Ctx) string                            { return R.Path }
func CtxGetRespHeader(c *fiber.Ctx, key string, d ...string) string { return W.Headers[key] }

// ---- fasthttp objects reachable from the context

func ReqURI(r *fasthttp.Request) *fasthttp.URI    { return theURI }
func URIQueryArgs(u *fasthttp.URI) *fasthttp.Args { return theArgs }
func URIPath(u *fasthttp.URI) []byte              { return []byte(R.Path) }
func URIPathOriginal(u *fasthttp.URI) []byte      { return []byte(R.Path) }
func ReqBodyStream(r *fasthttp.Request) io.Reader { return R.Stream }
func ReqBody(r *fasthttp.Request) []byte          { return R.Body }

func ArgsHas(a *fasthttp.Args, key string) bool {
	_, ok := R.queryVal(key)
	return ok
}

func ArgsPeek(a *fasthttp.Args, key string) []byte {
	v, _ := R.queryVal(key)
	return []byte(v)
}

func ArgsVisitAll(a *fasthttp.Args, f func(key, value []byte)) {
	for _, k := range R.QueryKeys {
		f([]byte(k), []byte(R.query[k]))
	}
}

func ArgsQueryString(a *fasthttp.Args) []byte {
	var sb []byte
	for i, k := range R.QueryKeys {
		if i > 0 {
			sb = append(sb, '&')
		}
		sb = append(sb, k...)
		if v := R.query[k]; v != "" {
			sb = append(sb, '=')
			sb = append(sb, v...)
		}
	}
	return sb
}

func ArgsLen(a *fasthttp.Args) int { return len(R.QueryKeys) }

func ReqHeaderVisitAll(h *fasthttp.RequestHeader, f func(key, value []byte)) {
	for _, k := range R.HeaderKeys {
		f([]byte(k), []byte(R.headers[k]))
	}
}

func ReqHeaderPeek(h *fasthttp.RequestHeader, key string) []byte {
	v, _ := R.header(key)
	return []byte(v)
}

func ReqHeaderContentLength(h *fasthttp.RequestHeader) int {
	v, ok := R.header("content-length")
	if !ok {
		return len(R.Body)
	}
	n, _ := strconv.Atoi(v)
	return n
}

func RespStatusCode(r *fasthttp.Response) int                       { return W.Status }
func RespHeaderSet(h *fasthttp.ResponseHeader, key, val string)     { W.Headers[key] = val }
func RespHeaderSetContentType(h *fasthttp.ResponseHeader, v string) { W.Headers["Content-Type"] = v }
func ReqHeaderNop(h *fasthttp.RequestHeader)                        {}
func RespHeaderNop(h *fasthttp.ResponseHeader)                      {}

func ReqCtxSetBodyStream(c *fasthttp.RequestCtx, rdr io.Reader, size int) {
	W.Stream, W.StreamSize, W.StreamSet = rdr, size, true
}
func ReqCtxErr(c *fasthttp.RequestCtx) error            { return nil }
func ReqCtxDone(c *fasthttp.RequestCtx) <-chan struct{} { return nil }
func ReqCtxValue(c *fasthttp.RequestCtx, key any) any   { return nil }

func RespSetBody(r *fasthttp.Response, body []byte)       { W.Body = body; W.Sends++ }
func RespSetBodyString(r *fasthttp.Response, body string) { W.Body = []byte(body); W.Sends++ }
func RespSetStatusCode(r *fasthttp.Response, code int)    { W.Status = code }
func RespBody(r *fasthttp.Response) []byte                { return W.Body }
func CtxSendString(c *fiber.Ctx, body string) error       { W.Body = []byte(body); W.Sends++; return nil }
func CtxWrite(c *fiber.Ctx, p []byte) (int, error) {
	W.Body = append(W.Body, p...)
	W.Sends++
	return len(p), nil
}
func CtxWriteString(c *fiber.Ctx, s string) (int, error) {
	W.Body = append(W.Body, s...)
	W.Sends++
	return len(s), nil
}
func CtxSendStream(c *fiber.Ctx, stream io.Reader, size ...int) error {
	W.Stream, W.StreamSet = stream, true
	return nil
}

// ---- route registration: (*fiber.App).Get/Put/... are redirected here so that the real router code can be executed and
// the handler chain it installs per route inspected.

type Route struct {
	Method   string
	Path     string
	Handlers []fiber.Handler
}

var Routes []Route

func appAdd(app *fiber.App, method, path string, handlers []fiber.Handler) fiber.Router {
	Routes = append(Routes, Route{Method: method, Path: path, Handlers: handlers})
	return app
}
func AppGet(app *fiber.App, path string, handlers ...fiber.Handler) fiber.Router {
	return appAdd(app, "GET", path, handlers)
}
func AppHead(app *fiber.App, path string, handlers ...fiber.Handler) fiber.Router {
	return appAdd(app, "HEAD", path, handlers)
}
func AppPost(app *fiber.App, path string, handlers ...fiber.Handler) fiber.Router {
	return appAdd(app, "POST", path, handlers)
}
func AppPut(app *fiber.App, path string, handlers ...fiber.Handler) fiber.Router {
	return appAdd(app, "PUT", path, handlers)
}
func AppDelete(app *fiber.App, path string, handlers ...fiber.Handler) fiber.Router {
	return appAdd(app, "DELETE", path, handlers)
}
func AppPatch(app *fiber.App, path string, handlers ...fiber.Handler) fiber.Router {
	return appAdd(app, "PATCH", path, handlers)
}

// RunChain calls the handlers of a route the way fiber does: the next one runs only if the previous called Next().
func RunChain(ctx *fiber.Ctx, handlers []fiber.Handler) error {
	for i, h := range handlers {
		before := W.NextCalls
		err := h(ctx)
		if err != nil || (i < len(handlers)-1 && W.NextCalls == before) {
			return err
		}
	}
	return nil
}

// AppUse records the middlewares of app.Use(...) as a route with method "USE" (they apply to every route registered later).
func AppUse(app *fiber.App, args ...interface{}) fiber.Router {
	var hs []fiber.Handler
	prefix := ""
	for _, a := range args {
		switch v := a.(type) {
		case string:
			prefix = v
		case fiber.Handler:
			hs = append(hs, v)
		}
	}
	return appAdd(app, "USE", prefix, hs)
}

// ChainFor returns the handlers a request for the registered route (method, path pattern) runs through: the middlewares
// installed with Use before the route was registered, then the route's own handlers; nil if no such route exists.
func ChainFor(method, path string) []fiber.Handler {
	var chain []fiber.Handler
	for _, rt := range Routes {
		if rt.Method == "USE" {
			if rt.Path == "" || rt.Path == "/" {
				chain = append(chain, rt.Handlers...)
			}
			continue
		}
		if rt.Method == method && rt.Path == path {
			return append(chain, rt.Handlers...)
		}
	}
	return nil
}

// ChainTail is ChainFor restricted to the last nUse middlewares installed with Use plus the route's own handlers (for
// harnesses that start after authentication).
func ChainTail(method, path string, nUse int) []fiber.Handler {
	var uses []fiber.Handler
	for _, rt := range Routes {
		if rt.Method == "USE" {
			if rt.Path == "" || rt.Path == "/" {
				uses = append(uses, rt.Handlers...)
			}
			continue
		}
		if rt.Method == method && rt.Path == path {
			if len(uses) > nUse {
				uses = uses[len(uses)-nUse:]
			}
			return append(append([]fiber.Handler{}, uses...), rt.Handlers...)
		}
	}
	return nil
}

// LoggerNew stands in for fiber's request logger middleware (formatting is not the subject of any check).
func LoggerNew(config ...interface{}) fiber.Handler {
	return func(c *fiber.Ctx) error { return CtxNext(c) }
}
