// Code generated from backend.Backend by /verif/spec/gen_recorder.py; DO NOT EDIT BY HAND.
package zzvfbe

import (
	"bufio"
	"context"
	"errors"

	"github.com/aws/aws-sdk-go-v2/service/s3"
	"github.com/aws/aws-sdk-go-v2/service/s3/types"
	"github.com/versity/versitygw/internal/zzvf"
	"github.com/versity/versitygw/s3err"
	"github.com/versity/versitygw/s3response"
)

var _ = types.ObjectOwnershipBucketOwnerEnforced
var _ = s3.ServiceID
var _ = s3response.Object{}
var _ = bufio.NewWriter
var _ context.Context

// Recorder is the backend model for controller checks: every call is recorded; results are arbitrary
// values of the result type (pointers non-nil) or an error.
type Recorder struct {
	Calls []Call
}

type Call struct {
	Method string
	Args   []any
	Failed bool // the call returned an error
}

func (r *Recorder) String() string { return "recorder" }
func (r *Recorder) Shutdown()      {}

func (r *Recorder) rec(m string, args ...any) int {
	r.Calls = append(r.Calls, Call{Method: m, Args: args})
	zzvf.Trace("be." + m)
	return len(r.Calls) - 1
}

func (r *Recorder) failed(i int, err error) error {
	if err != nil {
		r.Calls[i].Failed = true
	}
	return err
}

// FailKinds: 1 = API errors only, 2 = also raw (non-API) errors
var FailKinds = 1

var errRaw = errors.New("input/output error")

// NoFail lists methods that never fail in the current harness (keeps path counts down).
var NoFail = map[string]bool{}

// fail decides whether the call returns an error (a generic S3 API error).
func fail(m string) error {
	if NoFail[m] {
		return nil
	}
	switch zzvf.Choice("be."+m+"$err", 1+FailKinds) {
	case 1:
		return s3err.GetAPIError(s3err.ErrNoSuchKey)
	case 2:
		return errRaw // a non-API error (I/O fault and the like)
	}
	return nil
}

// Hooks: per-method result computation installed by harnesses (nil = arbitrary value of the result type).
var Hooks = map[string]func(r *Recorder, args []any) (any, error){}

func (r *Recorder) ListBuckets(a0 context.Context, a1 s3response.ListBucketsInput) (s3response.ListAllMyBucketsResult, error) {
	ci := r.rec("ListBuckets", a1)
	var out s3response.ListAllMyBucketsResult
	if h := Hooks["ListBuckets"]; h != nil {
		v, err := h(r, []any{a1})
		if err != nil {
			return out, r.failed(ci, err)
		}
		return v.(s3response.ListAllMyBucketsResult), nil
	}
	if err := fail("ListBuckets"); err != nil {
		return out, r.failed(ci, err)
	}
	zzvf.Havoc(&out, "be.ListBuckets")
	return out, nil
}

func (r *Recorder) HeadBucket(a0 context.Context, a1 *s3.HeadBucketInput) (*s3.HeadBucketOutput, error) {
	ci := r.rec("HeadBucket", a1)
	var out *s3.HeadBucketOutput
	if h := Hooks["HeadBucket"]; h != nil {
		v, err := h(r, []any{a1})
		if err != nil {
			return out, r.failed(ci, err)
		}
		return v.(*s3.HeadBucketOutput), nil
	}
	if err := fail("HeadBucket"); err != nil {
		return out, r.failed(ci, err)
	}
	zzvf.Havoc(&out, "be.HeadBucket")
	return out, nil
}

func (r *Recorder) GetBucketAcl(a0 context.Context, a1 *s3.GetBucketAclInput) ([]byte, error) {
	ci := r.rec("GetBucketAcl", a1)
	var out []byte
	if h := Hooks["GetBucketAcl"]; h != nil {
		v, err := h(r, []any{a1})
		if err != nil {
			return out, r.failed(ci, err)
		}
		return v.([]byte), nil
	}
	if err := fail("GetBucketAcl"); err != nil {
		return out, r.failed(ci, err)
	}
	zzvf.Havoc(&out, "be.GetBucketAcl")
	return out, nil
}

func (r *Recorder) CreateBucket(a0 context.Context, a1 *s3.CreateBucketInput, a2 []byte) error {
	ci := r.rec("CreateBucket", a1, a2)
	if h := Hooks["CreateBucket"]; h != nil {
		_, err := h(r, []any{a1, a2})
		return r.failed(ci, err)
	}
	return r.failed(ci, fail("CreateBucket"))
}

func (r *Recorder) PutBucketAcl(a0 context.Context, a1 string, a2 []byte) error {
	ci := r.rec("PutBucketAcl", a1, a2)
	if h := Hooks["PutBucketAcl"]; h != nil {
		_, err := h(r, []any{a1, a2})
		return r.failed(ci, err)
	}
	return r.failed(ci, fail("PutBucketAcl"))
}

func (r *Recorder) DeleteBucket(a0 context.Context, a1 string) error {
	ci := r.rec("DeleteBucket", a1)
	if h := Hooks["DeleteBucket"]; h != nil {
		_, err := h(r, []any{a1})
		return r.failed(ci, err)
	}
	return r.failed(ci, fail("DeleteBucket"))
}

func (r *Recorder) PutBucketVersioning(a0 context.Context, a1 string, a2 types.BucketVersioningStatus) error {
	ci := r.rec("PutBucketVersioning", a1, a2)
	if h := Hooks["PutBucketVersioning"]; h != nil {
		_, err := h(r, []any{a1, a2})
		return r.failed(ci, err)
	}
	return r.failed(ci, fail("PutBucketVersioning"))
}

func (r *Recorder) GetBucketVersioning(a0 context.Context, a1 string) (s3response.GetBucketVersioningOutput, error) {
	ci := r.rec("GetBucketVersioning", a1)
	var out s3response.GetBucketVersioningOutput
	if h := Hooks["GetBucketVersioning"]; h != nil {
		v, err := h(r, []any{a1})
		if err != nil {
			return out, r.failed(ci, err)
		}
		return v.(s3response.GetBucketVersioningOutput), nil
	}
	if err := fail("GetBucketVersioning"); err != nil {
		return out, r.failed(ci, err)
	}
	zzvf.Havoc(&out, "be.GetBucketVersioning")
	return out, nil
}

func (r *Recorder) PutBucketPolicy(a0 context.Context, a1 string, a2 []byte) error {
	ci := r.rec("PutBucketPolicy", a1, a2)
	if h := Hooks["PutBucketPolicy"]; h != nil {
		_, err := h(r, []any{a1, a2})
		return r.failed(ci, err)
	}
	return r.failed(ci, fail("PutBucketPolicy"))
}

func (r *Recorder) GetBucketPolicy(a0 context.Context, a1 string) ([]byte, error) {
	ci := r.rec("GetBucketPolicy", a1)
	var out []byte
	if h := Hooks["GetBucketPolicy"]; h != nil {
		v, err := h(r, []any{a1})
		if err != nil {
			return out, r.failed(ci, err)
		}
		return v.([]byte), nil
	}
	if err := fail("GetBucketPolicy"); err != nil {
		return out, r.failed(ci, err)
	}
	zzvf.Havoc(&out, "be.GetBucketPolicy")
	return out, nil
}

func (r *Recorder) DeleteBucketPolicy(a0 context.Context, a1 string) error {
	ci := r.rec("DeleteBucketPolicy", a1)
	if h := Hooks["DeleteBucketPolicy"]; h != nil {
		_, err := h(r, []any{a1})
		return r.failed(ci, err)
	}
	return r.failed(ci, fail("DeleteBucketPolicy"))
}

func (r *Recorder) PutBucketOwnershipControls(a0 context.Context, a1 string, a2 types.ObjectOwnership) error {
	ci := r.rec("PutBucketOwnershipControls", a1, a2)
	if h := Hooks["PutBucketOwnershipControls"]; h != nil {
		_, err := h(r, []any{a1, a2})
		return r.failed(ci, err)
	}
	return r.failed(ci, fail("PutBucketOwnershipControls"))
}

func (r *Recorder) GetBucketOwnershipControls(a0 context.Context, a1 string) (types.ObjectOwnership, error) {
	ci := r.rec("GetBucketOwnershipControls", a1)
	var out types.ObjectOwnership
	if h := Hooks["GetBucketOwnershipControls"]; h != nil {
		v, err := h(r, []any{a1})
		if err != nil {
			return out, r.failed(ci, err)
		}
		return v.(types.ObjectOwnership), nil
	}
	if err := fail("GetBucketOwnershipControls"); err != nil {
		return out, r.failed(ci, err)
	}
	zzvf.Havoc(&out, "be.GetBucketOwnershipControls")
	return out, nil
}

func (r *Recorder) DeleteBucketOwnershipControls(a0 context.Context, a1 string) error {
	ci := r.rec("DeleteBucketOwnershipControls", a1)
	if h := Hooks["DeleteBucketOwnershipControls"]; h != nil {
		_, err := h(r, []any{a1})
		return r.failed(ci, err)
	}
	return r.failed(ci, fail("DeleteBucketOwnershipControls"))
}

func (r *Recorder) PutBucketCors(a0 context.Context, a1 []byte) error {
	ci := r.rec("PutBucketCors", a1)
	if h := Hooks["PutBucketCors"]; h != nil {
		_, err := h(r, []any{a1})
		return r.failed(ci, err)
	}
	return r.failed(ci, fail("PutBucketCors"))
}

func (r *Recorder) GetBucketCors(a0 context.Context, a1 string) ([]byte, error) {
	ci := r.rec("GetBucketCors", a1)
	var out []byte
	if h := Hooks["GetBucketCors"]; h != nil {
		v, err := h(r, []any{a1})
		if err != nil {
			return out, r.failed(ci, err)
		}
		return v.([]byte), nil
	}
	if err := fail("GetBucketCors"); err != nil {
		return out, r.failed(ci, err)
	}
	zzvf.Havoc(&out, "be.GetBucketCors")
	return out, nil
}

func (r *Recorder) DeleteBucketCors(a0 context.Context, a1 string) error {
	ci := r.rec("DeleteBucketCors", a1)
	if h := Hooks["DeleteBucketCors"]; h != nil {
		_, err := h(r, []any{a1})
		return r.failed(ci, err)
	}
	return r.failed(ci, fail("DeleteBucketCors"))
}

func (r *Recorder) CreateMultipartUpload(a0 context.Context, a1 s3response.CreateMultipartUploadInput) (s3response.InitiateMultipartUploadResult, error) {
	ci := r.rec("CreateMultipartUpload", a1)
	var out s3response.InitiateMultipartUploadResult
	if h := Hooks["CreateMultipartUpload"]; h != nil {
		v, err := h(r, []any{a1})
		if err != nil {
			return out, r.failed(ci, err)
		}
		return v.(s3response.InitiateMultipartUploadResult), nil
	}
	if err := fail("CreateMultipartUpload"); err != nil {
		return out, r.failed(ci, err)
	}
	zzvf.Havoc(&out, "be.CreateMultipartUpload")
	return out, nil
}

func (r *Recorder) CompleteMultipartUpload(a0 context.Context, a1 *s3.CompleteMultipartUploadInput) (*s3.CompleteMultipartUploadOutput, error) {
	ci := r.rec("CompleteMultipartUpload", a1)
	var out *s3.CompleteMultipartUploadOutput
	if h := Hooks["CompleteMultipartUpload"]; h != nil {
		v, err := h(r, []any{a1})
		if err != nil {
			return out, r.failed(ci, err)
		}
		return v.(*s3.CompleteMultipartUploadOutput), nil
	}
	if err := fail("CompleteMultipartUpload"); err != nil {
		return out, r.failed(ci, err)
	}
	zzvf.Havoc(&out, "be.CompleteMultipartUpload")
	return out, nil
}

func (r *Recorder) AbortMultipartUpload(a0 context.Context, a1 *s3.AbortMultipartUploadInput) error {
	ci := r.rec("AbortMultipartUpload", a1)
	if h := Hooks["AbortMultipartUpload"]; h != nil {
		_, err := h(r, []any{a1})
		return r.failed(ci, err)
	}
	return r.failed(ci, fail("AbortMultipartUpload"))
}

func (r *Recorder) ListMultipartUploads(a0 context.Context, a1 *s3.ListMultipartUploadsInput) (s3response.ListMultipartUploadsResult, error) {
	ci := r.rec("ListMultipartUploads", a1)
	var out s3response.ListMultipartUploadsResult
	if h := Hooks["ListMultipartUploads"]; h != nil {
		v, err := h(r, []any{a1})
		if err != nil {
			return out, r.failed(ci, err)
		}
		return v.(s3response.ListMultipartUploadsResult), nil
	}
	if err := fail("ListMultipartUploads"); err != nil {
		return out, r.failed(ci, err)
	}
	zzvf.Havoc(&out, "be.ListMultipartUploads")
	return out, nil
}

func (r *Recorder) ListParts(a0 context.Context, a1 *s3.ListPartsInput) (s3response.ListPartsResult, error) {
	ci := r.rec("ListParts", a1)
	var out s3response.ListPartsResult
	if h := Hooks["ListParts"]; h != nil {
		v, err := h(r, []any{a1})
		if err != nil {
			return out, r.failed(ci, err)
		}
		return v.(s3response.ListPartsResult), nil
	}
	if err := fail("ListParts"); err != nil {
		return out, r.failed(ci, err)
	}
	zzvf.Havoc(&out, "be.ListParts")
	return out, nil
}

func (r *Recorder) UploadPart(a0 context.Context, a1 *s3.UploadPartInput) (*s3.UploadPartOutput, error) {
	ci := r.rec("UploadPart", a1)
	var out *s3.UploadPartOutput
	if h := Hooks["UploadPart"]; h != nil {
		v, err := h(r, []any{a1})
		if err != nil {
			return out, r.failed(ci, err)
		}
		return v.(*s3.UploadPartOutput), nil
	}
	if err := fail("UploadPart"); err != nil {
		return out, r.failed(ci, err)
	}
	zzvf.Havoc(&out, "be.UploadPart")
	return out, nil
}

func (r *Recorder) UploadPartCopy(a0 context.Context, a1 *s3.UploadPartCopyInput) (s3response.CopyPartResult, error) {
	ci := r.rec("UploadPartCopy", a1)
	var out s3response.CopyPartResult
	if h := Hooks["UploadPartCopy"]; h != nil {
		v, err := h(r, []any{a1})
		if err != nil {
			return out, r.failed(ci, err)
		}
		return v.(s3response.CopyPartResult), nil
	}
	if err := fail("UploadPartCopy"); err != nil {
		return out, r.failed(ci, err)
	}
	zzvf.Havoc(&out, "be.UploadPartCopy")
	return out, nil
}

func (r *Recorder) PutObject(a0 context.Context, a1 s3response.PutObjectInput) (s3response.PutObjectOutput, error) {
	ci := r.rec("PutObject", a1)
	var out s3response.PutObjectOutput
	if h := Hooks["PutObject"]; h != nil {
		v, err := h(r, []any{a1})
		if err != nil {
			return out, r.failed(ci, err)
		}
		return v.(s3response.PutObjectOutput), nil
	}
	if err := fail("PutObject"); err != nil {
		return out, r.failed(ci, err)
	}
	zzvf.Havoc(&out, "be.PutObject")
	return out, nil
}

func (r *Recorder) HeadObject(a0 context.Context, a1 *s3.HeadObjectInput) (*s3.HeadObjectOutput, error) {
	ci := r.rec("HeadObject", a1)
	var out *s3.HeadObjectOutput
	if h := Hooks["HeadObject"]; h != nil {
		v, err := h(r, []any{a1})
		if err != nil {
			return out, r.failed(ci, err)
		}
		return v.(*s3.HeadObjectOutput), nil
	}
	if err := fail("HeadObject"); err != nil {
		return out, r.failed(ci, err)
	}
	zzvf.Havoc(&out, "be.HeadObject")
	return out, nil
}

func (r *Recorder) GetObject(a0 context.Context, a1 *s3.GetObjectInput) (*s3.GetObjectOutput, error) {
	ci := r.rec("GetObject", a1)
	var out *s3.GetObjectOutput
	if h := Hooks["GetObject"]; h != nil {
		v, err := h(r, []any{a1})
		if err != nil {
			return out, r.failed(ci, err)
		}
		return v.(*s3.GetObjectOutput), nil
	}
	if err := fail("GetObject"); err != nil {
		return out, r.failed(ci, err)
	}
	zzvf.Havoc(&out, "be.GetObject")
	return out, nil
}

func (r *Recorder) GetObjectAcl(a0 context.Context, a1 *s3.GetObjectAclInput) (*s3.GetObjectAclOutput, error) {
	ci := r.rec("GetObjectAcl", a1)
	var out *s3.GetObjectAclOutput
	if h := Hooks["GetObjectAcl"]; h != nil {
		v, err := h(r, []any{a1})
		if err != nil {
			return out, r.failed(ci, err)
		}
		return v.(*s3.GetObjectAclOutput), nil
	}
	if err := fail("GetObjectAcl"); err != nil {
		return out, r.failed(ci, err)
	}
	zzvf.Havoc(&out, "be.GetObjectAcl")
	return out, nil
}

func (r *Recorder) GetObjectAttributes(a0 context.Context, a1 *s3.GetObjectAttributesInput) (s3response.GetObjectAttributesResponse, error) {
	ci := r.rec("GetObjectAttributes", a1)
	var out s3response.GetObjectAttributesResponse
	if h := Hooks["GetObjectAttributes"]; h != nil {
		v, err := h(r, []any{a1})
		if err != nil {
			return out, r.failed(ci, err)
		}
		return v.(s3response.GetObjectAttributesResponse), nil
	}
	if err := fail("GetObjectAttributes"); err != nil {
		return out, r.failed(ci, err)
	}
	zzvf.Havoc(&out, "be.GetObjectAttributes")
	return out, nil
}

func (r *Recorder) CopyObject(a0 context.Context, a1 s3response.CopyObjectInput) (*s3.CopyObjectOutput, error) {
	ci := r.rec("CopyObject", a1)
	var out *s3.CopyObjectOutput
	if h := Hooks["CopyObject"]; h != nil {
		v, err := h(r, []any{a1})
		if err != nil {
			return out, r.failed(ci, err)
		}
		return v.(*s3.CopyObjectOutput), nil
	}
	if err := fail("CopyObject"); err != nil {
		return out, r.failed(ci, err)
	}
	zzvf.Havoc(&out, "be.CopyObject")
	return out, nil
}

func (r *Recorder) ListObjects(a0 context.Context, a1 *s3.ListObjectsInput) (s3response.ListObjectsResult, error) {
	ci := r.rec("ListObjects", a1)
	var out s3response.ListObjectsResult
	if h := Hooks["ListObjects"]; h != nil {
		v, err := h(r, []any{a1})
		if err != nil {
			return out, r.failed(ci, err)
		}
		return v.(s3response.ListObjectsResult), nil
	}
	if err := fail("ListObjects"); err != nil {
		return out, r.failed(ci, err)
	}
	zzvf.Havoc(&out, "be.ListObjects")
	return out, nil
}

func (r *Recorder) ListObjectsV2(a0 context.Context, a1 *s3.ListObjectsV2Input) (s3response.ListObjectsV2Result, error) {
	ci := r.rec("ListObjectsV2", a1)
	var out s3response.ListObjectsV2Result
	if h := Hooks["ListObjectsV2"]; h != nil {
		v, err := h(r, []any{a1})
		if err != nil {
			return out, r.failed(ci, err)
		}
		return v.(s3response.ListObjectsV2Result), nil
	}
	if err := fail("ListObjectsV2"); err != nil {
		return out, r.failed(ci, err)
	}
	zzvf.Havoc(&out, "be.ListObjectsV2")
	return out, nil
}

func (r *Recorder) DeleteObject(a0 context.Context, a1 *s3.DeleteObjectInput) (*s3.DeleteObjectOutput, error) {
	ci := r.rec("DeleteObject", a1)
	var out *s3.DeleteObjectOutput
	if h := Hooks["DeleteObject"]; h != nil {
		v, err := h(r, []any{a1})
		if err != nil {
			return out, r.failed(ci, err)
		}
		return v.(*s3.DeleteObjectOutput), nil
	}
	if err := fail("DeleteObject"); err != nil {
		return out, r.failed(ci, err)
	}
	zzvf.Havoc(&out, "be.DeleteObject")
	return out, nil
}

func (r *Recorder) DeleteObjects(a0 context.Context, a1 *s3.DeleteObjectsInput) (s3response.DeleteResult, error) {
	ci := r.rec("DeleteObjects", a1)
	var out s3response.DeleteResult
	if h := Hooks["DeleteObjects"]; h != nil {
		v, err := h(r, []any{a1})
		if err != nil {
			return out, r.failed(ci, err)
		}
		return v.(s3response.DeleteResult), nil
	}
	if err := fail("DeleteObjects"); err != nil {
		return out, r.failed(ci, err)
	}
	zzvf.Havoc(&out, "be.DeleteObjects")
	return out, nil
}

func (r *Recorder) PutObjectAcl(a0 context.Context, a1 *s3.PutObjectAclInput) error {
	ci := r.rec("PutObjectAcl", a1)
	if h := Hooks["PutObjectAcl"]; h != nil {
		_, err := h(r, []any{a1})
		return r.failed(ci, err)
	}
	return r.failed(ci, fail("PutObjectAcl"))
}

func (r *Recorder) ListObjectVersions(a0 context.Context, a1 *s3.ListObjectVersionsInput) (s3response.ListVersionsResult, error) {
	ci := r.rec("ListObjectVersions", a1)
	var out s3response.ListVersionsResult
	if h := Hooks["ListObjectVersions"]; h != nil {
		v, err := h(r, []any{a1})
		if err != nil {
			return out, r.failed(ci, err)
		}
		return v.(s3response.ListVersionsResult), nil
	}
	if err := fail("ListObjectVersions"); err != nil {
		return out, r.failed(ci, err)
	}
	zzvf.Havoc(&out, "be.ListObjectVersions")
	return out, nil
}

func (r *Recorder) RestoreObject(a0 context.Context, a1 *s3.RestoreObjectInput) error {
	ci := r.rec("RestoreObject", a1)
	if h := Hooks["RestoreObject"]; h != nil {
		_, err := h(r, []any{a1})
		return r.failed(ci, err)
	}
	return r.failed(ci, fail("RestoreObject"))
}

func (r *Recorder) GetBucketTagging(a0 context.Context, a1 string) (map[string]string, error) {
	ci := r.rec("GetBucketTagging", a1)
	var out map[string]string
	if h := Hooks["GetBucketTagging"]; h != nil {
		v, err := h(r, []any{a1})
		if err != nil {
			return out, r.failed(ci, err)
		}
		return v.(map[string]string), nil
	}
	if err := fail("GetBucketTagging"); err != nil {
		return out, r.failed(ci, err)
	}
	zzvf.Havoc(&out, "be.GetBucketTagging")
	return out, nil
}

func (r *Recorder) PutBucketTagging(a0 context.Context, a1 string, a2 map[string]string) error {
	ci := r.rec("PutBucketTagging", a1, a2)
	if h := Hooks["PutBucketTagging"]; h != nil {
		_, err := h(r, []any{a1, a2})
		return r.failed(ci, err)
	}
	return r.failed(ci, fail("PutBucketTagging"))
}

func (r *Recorder) DeleteBucketTagging(a0 context.Context, a1 string) error {
	ci := r.rec("DeleteBucketTagging", a1)
	if h := Hooks["DeleteBucketTagging"]; h != nil {
		_, err := h(r, []any{a1})
		return r.failed(ci, err)
	}
	return r.failed(ci, fail("DeleteBucketTagging"))
}

func (r *Recorder) GetObjectTagging(a0 context.Context, a1 string, a2 string) (map[string]string, error) {
	ci := r.rec("GetObjectTagging", a1, a2)
	var out map[string]string
	if h := Hooks["GetObjectTagging"]; h != nil {
		v, err := h(r, []any{a1, a2})
		if err != nil {
			return out, r.failed(ci, err)
		}
		return v.(map[string]string), nil
	}
	if err := fail("GetObjectTagging"); err != nil {
		return out, r.failed(ci, err)
	}
	zzvf.Havoc(&out, "be.GetObjectTagging")
	return out, nil
}

func (r *Recorder) PutObjectTagging(a0 context.Context, a1 string, a2 string, a3 map[string]string) error {
	ci := r.rec("PutObjectTagging", a1, a2, a3)
	if h := Hooks["PutObjectTagging"]; h != nil {
		_, err := h(r, []any{a1, a2, a3})
		return r.failed(ci, err)
	}
	return r.failed(ci, fail("PutObjectTagging"))
}

func (r *Recorder) DeleteObjectTagging(a0 context.Context, a1 string, a2 string) error {
	ci := r.rec("DeleteObjectTagging", a1, a2)
	if h := Hooks["DeleteObjectTagging"]; h != nil {
		_, err := h(r, []any{a1, a2})
		return r.failed(ci, err)
	}
	return r.failed(ci, fail("DeleteObjectTagging"))
}

func (r *Recorder) PutObjectLockConfiguration(a0 context.Context, a1 string, a2 []byte) error {
	ci := r.rec("PutObjectLockConfiguration", a1, a2)
	if h := Hooks["PutObjectLockConfiguration"]; h != nil {
		_, err := h(r, []any{a1, a2})
		return r.failed(ci, err)
	}
	return r.failed(ci, fail("PutObjectLockConfiguration"))
}

func (r *Recorder) GetObjectLockConfiguration(a0 context.Context, a1 string) ([]byte, error) {
	ci := r.rec("GetObjectLockConfiguration", a1)
	var out []byte
	if h := Hooks["GetObjectLockConfiguration"]; h != nil {
		v, err := h(r, []any{a1})
		if err != nil {
			return out, r.failed(ci, err)
		}
		return v.([]byte), nil
	}
	if err := fail("GetObjectLockConfiguration"); err != nil {
		return out, r.failed(ci, err)
	}
	zzvf.Havoc(&out, "be.GetObjectLockConfiguration")
	return out, nil
}

func (r *Recorder) PutObjectRetention(a0 context.Context, a1 string, a2 string, a3 string, a4 bool, a5 []byte) error {
	ci := r.rec("PutObjectRetention", a1, a2, a3, a4, a5)
	if h := Hooks["PutObjectRetention"]; h != nil {
		_, err := h(r, []any{a1, a2, a3, a4, a5})
		return r.failed(ci, err)
	}
	return r.failed(ci, fail("PutObjectRetention"))
}

func (r *Recorder) GetObjectRetention(a0 context.Context, a1 string, a2 string, a3 string) ([]byte, error) {
	ci := r.rec("GetObjectRetention", a1, a2, a3)
	var out []byte
	if h := Hooks["GetObjectRetention"]; h != nil {
		v, err := h(r, []any{a1, a2, a3})
		if err != nil {
			return out, r.failed(ci, err)
		}
		return v.([]byte), nil
	}
	if err := fail("GetObjectRetention"); err != nil {
		return out, r.failed(ci, err)
	}
	zzvf.Havoc(&out, "be.GetObjectRetention")
	return out, nil
}

func (r *Recorder) PutObjectLegalHold(a0 context.Context, a1 string, a2 string, a3 string, a4 bool) error {
	ci := r.rec("PutObjectLegalHold", a1, a2, a3, a4)
	if h := Hooks["PutObjectLegalHold"]; h != nil {
		_, err := h(r, []any{a1, a2, a3, a4})
		return r.failed(ci, err)
	}
	return r.failed(ci, fail("PutObjectLegalHold"))
}

func (r *Recorder) GetObjectLegalHold(a0 context.Context, a1 string, a2 string, a3 string) (*bool, error) {
	ci := r.rec("GetObjectLegalHold", a1, a2, a3)
	var out *bool
	if h := Hooks["GetObjectLegalHold"]; h != nil {
		v, err := h(r, []any{a1, a2, a3})
		if err != nil {
			return out, r.failed(ci, err)
		}
		return v.(*bool), nil
	}
	if err := fail("GetObjectLegalHold"); err != nil {
		return out, r.failed(ci, err)
	}
	zzvf.Havoc(&out, "be.GetObjectLegalHold")
	return out, nil
}

func (r *Recorder) ChangeBucketOwner(a0 context.Context, a1 string, a2 []byte) error {
	ci := r.rec("ChangeBucketOwner", a1, a2)
	if h := Hooks["ChangeBucketOwner"]; h != nil {
		_, err := h(r, []any{a1, a2})
		return r.failed(ci, err)
	}
	return r.failed(ci, fail("ChangeBucketOwner"))
}

func (r *Recorder) ListBucketsAndOwners(a0 context.Context) ([]s3response.Bucket, error) {
	ci := r.rec("ListBucketsAndOwners")
	var out []s3response.Bucket
	if h := Hooks["ListBucketsAndOwners"]; h != nil {
		v, err := h(r, []any{})
		if err != nil {
			return out, r.failed(ci, err)
		}
		return v.([]s3response.Bucket), nil
	}
	if err := fail("ListBucketsAndOwners"); err != nil {
		return out, r.failed(ci, err)
	}
	zzvf.Havoc(&out, "be.ListBucketsAndOwners")
	return out, nil
}

func (r *Recorder) SelectObjectContent(ctx context.Context, input *s3.SelectObjectContentInput) func(w *bufio.Writer) {
	_ = r.rec("SelectObjectContent", input)
	return func(w *bufio.Writer) {}
}
