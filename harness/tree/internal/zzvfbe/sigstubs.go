package zzvfbe

import (
	"time"

	"github.com/gofiber/fiber/v2"
	"github.com/versity/versitygw/internal/zzvf"
	"github.com/versity/versitygw/s3api/utils"
	"github.com/versity/versitygw/s3err"
)

// Recording stand-ins for the two signature verification functions: what a correct signature IS (canonical request,
// HMAC chain) is outside the claim; that a verification which succeeded precedes every effect is what is checked.

type SigCheck struct {
	Valid bool
	At    int // backend calls made when the verification ran
	Kind  string
}

var (
	SigChecks []SigCheck
	Current   *Recorder
)

func sigDecide(kind string) error {
	valid := zzvf.Choice("signature_valid", 2) == 1
	n := 0
	if Current != nil {
		n = len(Current.Calls)
	}
	SigChecks = append(SigChecks, SigCheck{Valid: valid, At: n, Kind: kind})
	zzvf.Trace("sigcheck")
	if !valid {
		return s3err.GetAPIError(s3err.ErrSignatureDoesNotMatch)
	}
	return nil
}

func StubCheckValidSignature(ctx *fiber.Ctx, auth utils.AuthData, secret, checksum string, tdate time.Time, contentLen int64, debug bool) error {
	return sigDecide("header")
}

func StubCheckPresignedSignature(ctx *fiber.Ctx, auth utils.AuthData, secret string, debug bool) error {
	return sigDecide("presigned")
}
