package s3api

import (
	"bytes"
	"encoding/xml"

	"github.com/aws/aws-sdk-go-v2/service/s3/types"
	"github.com/gofiber/fiber/v2"
	"github.com/versity/versitygw/auth"
	"github.com/versity/versitygw/backend/posix"
	"github.com/versity/versitygw/internal/zzvf"
	"github.com/versity/versitygw/internal/zzvfbe"
	"github.com/versity/versitygw/s3api/controllers"
	"github.com/versity/versitygw/s3response"
)

// VfLockE2E: C10 end to end – one potentially destructive request through the real route handler (access decision, lock
// decision) over the real posix backend on the file-system model. Bucket with object lock (versioning directory configured
// or not), object "k" = "D" under legal hold, COMPLIANCE or GOVERNANCE retention far in the future; callers root / admin /
// plain user (bucket owner), bypass header present or not (no policy grants the bypass permission). Requests: DELETE k,
// DELETE k?versionId, PUT k, batch delete of k (with / without version id), copy of another object onto k, completion of a
// multipart upload onto k. Oracle: afterwards the protected version's bytes are still "D" (read by version id where the
// bucket is versioned, else as the current object).
func VfLockE2E() {
	versioning := zzvf.Choice("versioning_dir", 2) == 1
	protection := zzvf.Choice("protection", 3)
	history := 0
	if versioning {
		history = zzvf.Choice("later_history", 3) // 0 none, 1 a newer version on top, 2 a newer version and a delete marker on top
	}
	be, vid, uploadID := posix.VfLockWorld(versioning, protection, history)
	c := controllers.New(be, nil, nil, nil, nil, false, false)
	ctx := zzvfbe.NewRequest()
	r := zzvfbe.R
	acct := []auth.Account{{Access: "root", Role: auth.RoleAdmin}, {Access: "adm", Role: auth.RoleAdmin}, {Access: "root2", Role: auth.RoleUser}}[zzvf.Choice("caller", 3)]
	r.Locals["account"] = acct
	r.Locals["isRoot"] = acct.Access == "root"
	r.Locals["rootAccess"] = "root"
	r.Locals["region"] = "us-east-1"
	r.Locals["parsedAcl"] = auth.ACL{Owner: acct.Access}
	r.Locals["isPublicBucket"] = false
	r.Params["bucket"] = "bkt"
	if zzvf.Choice("bypass_header", 2) == 1 {
		r.SetHeader("X-Amz-Bypass-Governance-Retention", "true")
	}
	names := []string{"DeleteObject", "DeleteObject by version id", "PutObject", "DeleteObjects", "DeleteObjects by version id", "CopyObject onto it", "CompleteMultipartUpload onto it"}
	req := zzvf.Choice("request", len(names))
	zzvf.Trace("request: " + names[req])
	objectRoute := func() {
		r.Params["key"] = "k"
		r.Params["*1"] = ""
		r.Path = "/bkt/k"
	}
	var h fiber.Handler
	k := "k"
	switch req {
	case 0, 1:
		r.Method = "DELETE"
		objectRoute()
		if req == 1 {
			if vid == "" {
				return // no version ids in an unversioned bucket
			}
			r.SetQuery("versionId", vid)
		}
		h = c.DeleteActions
	case 2:
		r.Method = "PUT"
		objectRoute()
		r.SetHeader("Content-Length", "1")
		r.Locals["body-reader"] = bytes.NewReader([]byte("N"))
		h = c.PutActions
	case 3, 4:
		r.Method = "POST"
		r.Path = "/bkt"
		id := types.ObjectIdentifier{Key: &k}
		if req == 4 {
			if vid == "" {
				return
			}
			id.VersionId = &vid
		}
		r.Body, _ = xml.Marshal(s3response.DeleteObjects{Objects: []types.ObjectIdentifier{id}})
		r.SetQuery("delete", "")
		h = c.DeleteObjects
	case 5:
		r.Method = "PUT"
		objectRoute()
		r.SetHeader("X-Amz-Copy-Source", "bkt/other")
		h = c.PutActions
	case 6:
		r.Method = "POST"
		objectRoute()
		r.SetQuery("uploadId", uploadID)
		pn, tag := int32(1), "e1"
		r.Body, _ = xml.Marshal(struct {
			Parts []types.CompletedPart `xml:"Part"`
		}{Parts: []types.CompletedPart{{PartNumber: &pn, ETag: &tag}}})
		h = c.CreateActions
	}
	_ = h(ctx)
	zzvf.Reach("responded")
	zzvf.Trace("status ", zzvfbe.W.Status)
	data, err := posix.VfReadObject(versioning, vid)
	zzvf.Assert(err == nil, "protected-version-still-retrievable")
	if err == nil {
		zzvf.Assert(zzvf.BytesEq(data, []byte("D")), "protected-version-unchanged")
	}
}
