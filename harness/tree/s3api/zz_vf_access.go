package s3api

import (
	"github.com/aws/aws-sdk-go-v2/service/s3"
	"github.com/versity/versitygw/auth"
	"github.com/versity/versitygw/internal/zzvf"
	"github.com/versity/versitygw/internal/zzvfbe"
	"github.com/versity/versitygw/s3response"
)

// vfNeed: for each backend method that touches bucket or object data, the S3 action(s) one of which the caller must
// have been granted on exactly the resource the call names. obj: the call is about one object (resource bucket/key).
type vfNeed struct {
	actions []auth.Action
	obj     bool
}

var vfNeeds = map[string]vfNeed{
	"HeadBucket":                    {[]auth.Action{auth.ListBucketAction}, false},
	"PutBucketAcl":                  {[]auth.Action{auth.PutBucketAclAction}, false},
	"DeleteBucket":                  {[]auth.Action{auth.DeleteBucketAction}, false},
	"PutBucketVersioning":           {[]auth.Action{auth.PutBucketVersioningAction}, false},
	"GetBucketVersioning":           {[]auth.Action{auth.GetBucketVersioningAction}, false},
	"PutBucketPolicy":               {[]auth.Action{auth.PutBucketPolicyAction}, false},
	"DeleteBucketPolicy":            {[]auth.Action{auth.DeleteBucketPolicyAction}, false},
	"PutBucketOwnershipControls":    {[]auth.Action{auth.PutBucketOwnershipControlsAction}, false},
	"GetBucketOwnershipControls":    {[]auth.Action{auth.GetBucketOwnershipControlsAction}, false},
	"DeleteBucketOwnershipControls": {[]auth.Action{auth.PutBucketOwnershipControlsAction}, false},
	"PutBucketCors":                 {[]auth.Action{auth.PutBucketCorsAction}, false},
	"GetBucketCors":                 {[]auth.Action{auth.GetBucketCorsAction}, false},
	"DeleteBucketCors":              {[]auth.Action{auth.PutBucketCorsAction}, false},
	"GetBucketTagging":              {[]auth.Action{auth.GetBucketTaggingAction}, false},
	"PutBucketTagging":              {[]auth.Action{auth.PutBucketTaggingAction}, false},
	"DeleteBucketTagging":           {[]auth.Action{auth.PutBucketTaggingAction}, false},
	"ListObjects":                   {[]auth.Action{auth.ListBucketAction}, false},
	"ListObjectsV2":                 {[]auth.Action{auth.ListBucketAction}, false},
	"ListObjectVersions":            {[]auth.Action{auth.ListBucketVersionsAction}, false},
	"ListMultipartUploads":          {[]auth.Action{auth.ListBucketMultipartUploadsAction}, false},
	"PutObjectLockConfiguration":    {[]auth.Action{auth.PutBucketObjectLockConfigurationAction}, false},
	"CreateMultipartUpload":         {[]auth.Action{auth.PutObjectAction}, true},
	"CompleteMultipartUpload":       {[]auth.Action{auth.PutObjectAction}, true},
	"AbortMultipartUpload":          {[]auth.Action{auth.AbortMultipartUploadAction}, true},
	"ListParts":                     {[]auth.Action{auth.ListMultipartUploadPartsAction}, true},
	"UploadPart":                    {[]auth.Action{auth.PutObjectAction}, true},
	"UploadPartCopy":                {[]auth.Action{auth.PutObjectAction}, true},
	"PutObject":                     {[]auth.Action{auth.PutObjectAction}, true},
	"HeadObject":                    {[]auth.Action{auth.GetObjectAction, auth.GetObjectVersionAction}, true},
	"GetObject":                     {[]auth.Action{auth.GetObjectAction, auth.GetObjectVersionAction}, true},
	"GetObjectAcl":                  {[]auth.Action{auth.GetObjectAclAction}, true},
	"GetObjectAttributes":           {[]auth.Action{auth.GetObjectAttributesAction}, true},
	"CopyObject":                    {[]auth.Action{auth.PutObjectAction}, true},
	"DeleteObject":                  {[]auth.Action{auth.DeleteObjectAction}, true},
	"PutObjectAcl":                  {[]auth.Action{auth.PutObjectAclAction}, true},
	"RestoreObject":                 {[]auth.Action{auth.RestoreObjectAction}, true},
	"SelectObjectContent":           {[]auth.Action{auth.GetObjectAction}, true},
	"GetObjectTagging":              {[]auth.Action{auth.GetObjectTaggingAction}, true},
	"PutObjectTagging":              {[]auth.Action{auth.PutObjectTaggingAction}, true},
	"DeleteObjectTagging":           {[]auth.Action{auth.DeleteObjectTaggingAction}, true},
	"PutObjectRetention":            {[]auth.Action{auth.PutObjectRetentionAction}, true},
	"GetObjectRetention":            {[]auth.Action{auth.GetObjectRetentionAction}, true},
	"PutObjectLegalHold":            {[]auth.Action{auth.PutObjectLegalHoldAction}, true},
	"GetObjectLegalHold":            {[]auth.Action{auth.GetObjectLegalHoldAction}, true},
}

// look-ups a route makes for its own decisions (the result is not disclosed to the caller)
var vfInternalLookup = map[string]bool{
	"PutBucketActions/GetBucketOwnershipControls": true, // PutBucketAcl consults the ownership setting
}

// vfTarget extracts (bucket, object) a recorded backend call names.
func vfTarget(c zzvfbe.Call) (bucket, object string) {
	str := func(p *string) string {
		if p == nil {
			return ""
		}
		return *p
	}
	if len(c.Args) == 0 {
		return "", ""
	}
	switch a := c.Args[0].(type) {
	case string:
		bucket = a
		if len(c.Args) > 1 {
			if o, ok := c.Args[1].(string); ok {
				object = o
			}
		}
	case *s3.HeadBucketInput:
		bucket = str(a.Bucket)
	case *s3.ListObjectsInput:
		bucket = str(a.Bucket)
	case *s3.ListObjectsV2Input:
		bucket = str(a.Bucket)
	case *s3.ListObjectVersionsInput:
		bucket = str(a.Bucket)
	case *s3.ListMultipartUploadsInput:
		bucket = str(a.Bucket)
	case *s3.ListPartsInput:
		bucket, object = str(a.Bucket), str(a.Key)
	case *s3.CompleteMultipartUploadInput:
		bucket, object = str(a.Bucket), str(a.Key)
	case *s3.AbortMultipartUploadInput:
		bucket, object = str(a.Bucket), str(a.Key)
	case *s3.UploadPartInput:
		bucket, object = str(a.Bucket), str(a.Key)
	case *s3.UploadPartCopyInput:
		bucket, object = str(a.Bucket), str(a.Key)
	case *s3.HeadObjectInput:
		bucket, object = str(a.Bucket), str(a.Key)
	case *s3.GetObjectInput:
		bucket, object = str(a.Bucket), str(a.Key)
	case *s3.GetObjectAclInput:
		bucket, object = str(a.Bucket), str(a.Key)
	case *s3.GetObjectAttributesInput:
		bucket, object = str(a.Bucket), str(a.Key)
	case *s3.DeleteObjectInput:
		bucket, object = str(a.Bucket), str(a.Key)
	case *s3.PutObjectAclInput:
		bucket, object = str(a.Bucket), str(a.Key)
	case *s3.RestoreObjectInput:
		bucket, object = str(a.Bucket), str(a.Key)
	case *s3.SelectObjectContentInput:
		bucket, object = str(a.Bucket), str(a.Key)
	case s3response.PutObjectInput:
		bucket, object = str(a.Bucket), str(a.Key)
	case s3response.CopyObjectInput:
		bucket, object = str(a.Bucket), str(a.Key)
	case s3response.CreateMultipartUploadInput:
		bucket, object = str(a.Bucket), str(a.Key)
	}
	return
}

func vfGrantedBefore(idx int, n vfNeed, bucket, object string) bool {
	for _, ck := range zzvfbe.Checks {
		if !ck.Granted || ck.At > idx || ck.Kind == "lock" {
			continue
		}
		okAction := false
		for _, a := range n.actions {
			if ck.Opts.Action == a {
				okAction = true
			}
		}
		if !okAction || ck.Opts.Bucket != bucket {
			continue
		}
		if n.obj && ck.Opts.Object != object {
			continue
		}
		return true
	}
	return false
}

// VfAccess: C03 – on every path of every route, each backend call that reads or changes bucket/object data is preceded
// by a successful access decision for the corresponding action on exactly the bucket (and object) the call names;
// every key of a batch delete and the source of a copy are decided individually.
func VfAccess() {
	zzvf.Bound("havoc_str", 1)
	zzvf.Bound("havoc_str_fixed", 1)
	zzvf.Bound("havoc_slice", 2)
	vfPolicyModes = 1
	vfCallerFirst = 3 // the decision functions are stand-ins here: one caller kind is enough
	zzvfbe.ResetChecks()
	rt := vfRoutes[zzvf.Choice("route", len(vfRoutes))]
	be, _ := vfServe(rt, false)
	zzvf.Reach("returned")
	for i, call := range be.Calls {
		n, ok := vfNeeds[call.Method]
		if call.Method == "DeleteObjects" {
			in := call.Args[0].(*s3.DeleteObjectsInput)
			bucket := *in.Bucket
			for _, o := range in.Delete.Objects {
				if !vfGrantedBefore(i, vfNeed{[]auth.Action{auth.DeleteObjectAction}, true}, bucket, *o.Key) {
					zzvf.Trace("route=" + rt.name + " call=DeleteObjects per-key")
					zzvf.Fail("access-decided-per-key-of-batch-delete")
				}
			}
			zzvf.Reach("batch-delete")
			continue
		}
		if !ok {
			continue
		}
		bucket, object := vfTarget(call)
		if call.Method == "PutBucketCors" {
			bucket = "bkt" // this backend method carries no bucket argument
		}
		if vfInternalLookup[rt.name+"/"+call.Method] {
			continue
		}
		if !vfGrantedBefore(i, n, bucket, object) {
			zzvf.Trace("route=" + rt.name + " call=" + call.Method)
			zzvf.Fail("backend-call-preceded-by-matching-access-decision")
		}
		if call.Method == "CopyObject" || call.Method == "UploadPartCopy" {
			// the copy source must have been decided too (by the copy access function, with the source it copies from)
			src := ""
			switch a := call.Args[0].(type) {
			case s3response.CopyObjectInput:
				src = *a.CopySource
			case *s3.UploadPartCopyInput:
				src = *a.CopySource
			}
			found := false
			for _, ck := range zzvfbe.Checks {
				if ck.Kind == "copy" && ck.Granted && ck.At <= i && ck.CopySource == src {
					found = true
				}
			}
			if !found {
				zzvf.Trace("route=" + rt.name + " call=" + call.Method + " source")
				zzvf.Fail("copy-source-access-decided")
			}
		}
	}
}
