package s3api

import (
	"encoding/json"

	"github.com/gofiber/fiber/v2"
	"github.com/versity/versitygw/auth"
	"github.com/versity/versitygw/internal/zzvf"
	"github.com/versity/versitygw/internal/zzvfbe"
	"github.com/versity/versitygw/s3api/middlewares"
)

// mutating backend methods: with the read-only switch on, none may be reached
var vfMutators = map[string]bool{
	"CreateBucket": true, "PutBucketAcl": true, "DeleteBucket": true, "PutBucketVersioning": true, "PutBucketPolicy": true,
	"DeleteBucketPolicy": true, "PutBucketOwnershipControls": true, "DeleteBucketOwnershipControls": true, "PutBucketCors": true,
	"DeleteBucketCors": true, "CreateMultipartUpload": true, "CompleteMultipartUpload": true, "AbortMultipartUpload": true,
	"UploadPart": true, "UploadPartCopy": true, "PutObject": true, "CopyObject": true, "DeleteObject": true, "DeleteObjects": true,
	"PutObjectAcl": true, "RestoreObject": true, "PutBucketTagging": true, "DeleteBucketTagging": true, "PutObjectTagging": true,
	"DeleteObjectTagging": true, "PutObjectLockConfiguration": true, "PutObjectRetention": true, "PutObjectLegalHold": true,
	"ChangeBucketOwner": true,
}

// VfReadonly: C15 – with readonly=true no path of any S3 route reaches a mutating backend call,
// for root, admin and users, and every sub-resource.
func VfReadonly() {
	zzvf.Bound("havoc_str", 1)
	zzvf.Bound("havoc_str_fixed", 1)
	zzvf.Bound("havoc_slice", 1)
	rt := vfRoutes[zzvf.Choice("route", len(vfRoutes))]
	be, _ := vfServe(rt, true)
	zzvf.Reach("returned")
	zzvf.Reach("route:" + rt.name)
	for _, call := range be.Calls {
		if vfMutators[call.Method] {
			zzvf.Trace("route=" + rt.name + " mutator=" + call.Method)
			zzvf.Fail("no-mutation-in-readonly-mode")
		}
	}
}

// VfReadonlyReads: C15, second half – "read requests keep working": with the read-only switch on, the plain read requests
// (GetObject, HeadObject, ListObjects, ListObjectsV2, HeadBucket) of a caller who has access are passed to the backend and
// answered with success when the backend succeeds. The ACL middleware and handlers are those the real server constructor
// installs with the read-only option.
func VfReadonlyReads() {
	zzvf.Bound("havoc_str", 1)
	zzvf.Bound("havoc_str_fixed", 1)
	zzvf.Bound("havoc_slice", 1)
	type read struct {
		name, method, pattern, path, backend string
		v2                                   bool
	}
	reads := []read{
		{"GetObject", "GET", "/:bucket/:key/*", "/bkt/k", "GetObject", false},
		{"HeadObject", "HEAD", "/:bucket/:key/*", "/bkt/k", "HeadObject", false},
		{"ListObjects", "GET", "/:bucket", "/bkt", "ListObjects", false},
		{"ListObjectsV2", "GET", "/:bucket", "/bkt", "ListObjectsV2", true},
		{"HeadBucket", "HEAD", "/:bucket", "/bkt", "HeadBucket", false},
	}
	rd := reads[zzvf.Choice("read_request", len(reads))]
	zzvf.Trace("route=" + rd.name)
	be := &zzvfbe.Recorder{}
	zzvfbe.NoFail = map[string]bool{"GetObject": true, "HeadObject": true, "ListObjects": true, "ListObjectsV2": true, "HeadBucket": true,
		"GetBucketAcl": true, "GetBucketPolicy": true, "GetObjectLockConfiguration": true}
	aclBytes, _ := json.Marshal(auth.ACL{Owner: "root"})
	zzvfbe.Hooks["GetBucketAcl"] = func(rec *zzvfbe.Recorder, args []any) (any, error) { return aclBytes, nil }
	ctx := vfRootRequest(rd.method, rd.path)
	if rd.v2 {
		zzvfbe.R.SetQuery("list-type", "2")
	}
	zzvfbe.Routes = nil
	_, nerr := New(new(fiber.App), be, middlewares.RootUserConfig{Access: "root", Secret: "rootsec"}, "7070", "us-east-1", nil, nil, nil, nil, nil, WithQuiet(), WithReadOnly())
	zzvf.Assert(nerr == nil, "server-constructed")
	chain := zzvfbe.ChainTail(rd.method, rd.pattern, 1)
	zzvf.Assert(len(chain) == 2, "route-is-registered-behind-the-acl-middleware")
	if len(chain) != 2 {
		return
	}
	_ = zzvfbe.RunChain(ctx, chain)
	zzvf.Reach("answered")
	called := false
	for _, c := range be.Calls {
		if c.Method == rd.backend {
			called = true
		}
	}
	zzvf.Assert(called, "read-request-reaches-the-backend-in-readonly-mode")
	zzvf.Assert(zzvfbe.W.Status < 300, "read-request-succeeds-in-readonly-mode")
}
