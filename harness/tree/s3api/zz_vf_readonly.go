package s3api

import (
	"github.com/versity/versitygw/internal/zzvf"
)

// mutating backend methods: with the read-only switch on, none may be reached
var vfMutators = map[string]bool{
	"CreateBucket": true, "PutBucketAcl": true, "DeleteBucket": true, "PutBucketVersioning": true, "PutBucketPolicy": true,
	"DeleteBucketPolicy": true, "PutBucketOwnershipControls": true, "DeleteBucketOwnershipControls": true, "PutBucketCors": true,
	"DeleteBucketCors": true, "CreateMultipartUpload": true, "CompleteMultipartUpload": true, "AbortMultipartUpload": true,
	"UploadPart": true, "UploadPartCopy": true, "PutObject": true, "CopyObject": true, "DeleteObject": true, "DeleteObjects": true,
	"PutObjectAcl": true, "RestoreObject": true, "PutBucketTagging": true, "DeleteBucketTagging": true, "PutObjectTagging": true,
	"DeleteObjectTagging": true, "PutObjectLockConfiguration": true, "PutObjectRetention": true, "PutObjectLegalHold": true,
	"ChangeBucketOwner": true,
}

// VfReadonly: C15 – with readonly=true no path of any S3 route reaches a mutating backend call,
// for root, admin and users, and every sub-resource.
func VfReadonly() {
	zzvf.Bound("havoc_str", 1)
	zzvf.Bound("havoc_str_fixed", 1)
	zzvf.Bound("havoc_slice", 1)
	rt := vfRoutes[zzvf.Choice("route", len(vfRoutes))]
	be, _ := vfServe(rt, true)
	zzvf.Reach("returned")
	zzvf.Reach("route:" + rt.name)
	for _, call := range be.Calls {
		if vfMutators[call.Method] {
			zzvf.Trace("route=" + rt.name + " mutator=" + call.Method)
			zzvf.Fail("no-mutation-in-readonly-mode")
		}
	}
}
