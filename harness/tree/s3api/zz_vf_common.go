package s3api

import (
	"bytes"
	"encoding/json"
	"net/http/httptest"

	"github.com/gofiber/fiber/v2"
	"github.com/versity/versitygw/auth"
	"github.com/versity/versitygw/internal/zzvf"
	"github.com/versity/versitygw/internal/zzvfbe"
	"github.com/versity/versitygw/s3api/controllers"
	"github.com/versity/versitygw/s3api/middlewares"
	"github.com/versity/versitygw/s3err"
	"github.com/versity/versitygw/s3event"
)

// recording event sender
type vfEvents struct {
	Events []s3event.EventMeta
}

func (e *vfEvents) SendEvent(ctx *fiber.Ctx, meta s3event.EventMeta) {
	e.Events = append(e.Events, meta)
	zzvf.Trace("event")
}
func (e *vfEvents) Close() error { return nil }

// every sub-resource flag the handlers look at
var vfQueryFlags = map[string]bool{
	"tagging": true, "retention": true, "legal-hold": true, "acl": true, "attributes": true, "uploads": true,
	"versioning": true, "policy": true, "object-lock": true, "ownershipControls": true, "cors": true, "versions": true,
	"delete": true, "restore": true, "select": true,
}

// query parameters with a value that are decided symbolically (all others are absent) – a stated bound
var vfQueryValues = map[string]bool{"uploadId": true, "versionId": true, "partNumber": true, "list-type": true}

// request headers that are decided symbolically (all others are absent) – a stated bound of the controller checks
var vfHeaders = map[string]bool{
	"x-amz-copy-source": true, "x-amz-acl": true, "x-amz-grant-read": true, "x-amz-bypass-governance-retention": true,
}

// callers: 0 root, 1 admin, 2 user owning the bucket (ACL full control), 3 user without any grant
const vfCallers = 4

// vfCallerFirst lets a harness that stubs the decision functions drop the caller kinds it cannot distinguish
var vfCallerFirst = 0

func vfCaller(which int) (auth.Account, bool, auth.ACL) {
	acct := auth.Account{Access: "caller", Secret: "s", Role: auth.RoleUser}
	acl := auth.ACL{Owner: "someone"}
	switch which {
	case 0:
		acct.Role = auth.RoleAdmin
		return acct, true, acl
	case 1:
		acct.Role = auth.RoleAdmin
	case 2:
		acl.Owner = "caller"
		acl.Grantees = []auth.Grantee{{Permission: auth.PermissionFullControl, Access: "caller", Type: "CanonicalUser"}}
	}
	return acct, false, acl
}

var vfPolicyModes = 2

func vfPolicy(effect auth.BucketPolicyAccessType) []byte {
	p := auth.BucketPolicy{Statement: []auth.BucketPolicyItem{{
		Effect:     effect,
		Principals: auth.Principals{"*": struct{}{}},
		Actions:    auth.Actions{"s3:*": struct{}{}},
		Resources:  auth.Resources{"bkt": struct{}{}, "bkt/*": struct{}{}},
	}}}
	b, _ := json.Marshal(p)
	return b
}

// vfRequest installs a nondeterministic request: caller, query flags and the stated headers are symbolic.
// The locals are what the authentication middlewares leave behind for an authenticated caller.
func vfRequest(method string, bucketRoute bool) *fiber.Ctx {
	ctx := zzvfbe.NewRequest()
	r := zzvfbe.R
	r.Method = method
	acct, isRoot, acl := vfCaller(vfCallerFirst + zzvf.Choice("caller", vfCallers-vfCallerFirst))
	r.Locals["account"] = acct
	r.Locals["isRoot"] = isRoot
	r.Locals["rootAccess"] = "root"
	r.Locals["region"] = "us-east-1"
	r.Params["bucket"] = "bkt"
	if bucketRoute {
		r.Path = "/bkt"
	} else {
		r.Params["key"] = "obj"
		r.Params["*1"] = ""
		r.Path = "/bkt/obj"
	}
	r.QueryGen = func(key string) (string, bool) {
		if vfQueryFlags[key] {
			return "", zzvf.Bool("q." + key)
		}
		if !vfQueryValues[key] || !zzvf.Bool("q."+key) {
			return "", false
		}
		switch key {
		case "partNumber":
			return "1", true
		case "list-type":
			return "2", true
		}
		return "id1", true
	}
	r.HeaderGen = func(key string) (string, bool) {
		if !vfHeaders[key] {
			return "", false // headers outside the stated set are absent
		}
		if !zzvf.Bool("h." + key) {
			return "", false
		}
		switch key {
		case "x-amz-copy-source":
			// a proper source, or one of the degenerate spellings that are empty once decoded and stripped
			return []string{"srcbkt/srcobj", "%2F", "//"}[zzvf.Choice("copy_source_shape", 3)], true
		case "x-amz-bypass-governance-retention":
			return "true", true
		case "x-amz-acl":
			return "private", true
		case "x-amz-grant-read":
			return "id=caller", true
		}
		return zzvf.StringN("hv."+key, 1), true
	}
	r.Body = zzvf.OpaqueBytes("request-body")
	// the bucket ACL the ACL middleware will load
	aclBytes, _ := json.Marshal(acl)
	zzvfbe.Hooks["GetBucketAcl"] = func(rec *zzvfbe.Recorder, args []any) (any, error) { return aclBytes, nil }
	// bucket policy: 0 none, 1 allows the caller every action on the bucket and its objects, 2 denies everything
	var policyBytes []byte
	switch zzvf.Choice("policy", vfPolicyModes) {
	case 1:
		policyBytes = vfPolicy(auth.BucketPolicyAccessTypeAllow)
	case 2:
		policyBytes = vfPolicy(auth.BucketPolicyAccessTypeDeny)
	}
	zzvfbe.Hooks["GetBucketPolicy"] = func(rec *zzvfbe.Recorder, args []any) (any, error) {
		if policyBytes == nil || args[0].(string) != "bkt" {
			return nil, s3err.GetAPIError(s3err.ErrNoSuchBucketPolicy)
		}
		return policyBytes, nil
	}
	return ctx
}

type vfRoute struct {
	name    string
	method  string
	bucket  bool
	handler func(c controllers.S3ApiController) fiber.Handler
}

var vfRoutes = []vfRoute{
	{"GetActions", "GET", false, func(c controllers.S3ApiController) fiber.Handler { return c.GetActions }},
	{"ListActions", "GET", true, func(c controllers.S3ApiController) fiber.Handler { return c.ListActions }},
	{"PutBucketActions", "PUT", true, func(c controllers.S3ApiController) fiber.Handler { return c.PutBucketActions }},
	{"PutActions", "PUT", false, func(c controllers.S3ApiController) fiber.Handler { return c.PutActions }},
	{"DeleteBucket", "DELETE", true, func(c controllers.S3ApiController) fiber.Handler { return c.DeleteBucket }},
	{"DeleteObjects", "POST", true, func(c controllers.S3ApiController) fiber.Handler { return c.DeleteObjects }},
	{"DeleteActions", "DELETE", false, func(c controllers.S3ApiController) fiber.Handler { return c.DeleteActions }},
	{"HeadBucket", "HEAD", true, func(c controllers.S3ApiController) fiber.Handler { return c.HeadBucket }},
	{"HeadObject", "HEAD", false, func(c controllers.S3ApiController) fiber.Handler { return c.HeadObject }},
	{"CreateActions", "POST", false, func(c controllers.S3ApiController) fiber.Handler { return c.CreateActions }},
}

// vfServe runs the ACL middleware and, if it passes the request on, the route handler (the part of the real
// middleware chain that follows authentication).
func vfServe(rt vfRoute, readonly bool) (*zzvfbe.Recorder, *vfEvents) {
	be := &zzvfbe.Recorder{}
	ev := &vfEvents{}
	c := controllers.New(be, nil, nil, ev, nil, false, readonly)
	ctx := vfRequest(rt.method, rt.bucket)
	if !zzvf.IsSymbolic() {
		vfServeNative(rt, c, be, readonly)
		return be, ev
	}
	// the ACL middleware and the route handler are the ones the real server constructor installs (s3api.New -> app.Use,
	// S3ApiRouter.Init); the registrations are recorded by the fiber model. The harness starts after authentication.
	zzvfbe.Routes = nil
	opts := []Option{WithQuiet()}
	if readonly {
		opts = append(opts, WithReadOnly())
	}
	_, nerr := New(new(fiber.App), be, middlewares.RootUserConfig{Access: "root", Secret: "rootsec"}, "7070", "us-east-1", nil, nil, nil, ev, nil, opts...)
	zzvf.Assert(nerr == nil, "server-constructed")
	pattern := "/:bucket/:key/*"
	if rt.bucket {
		pattern = "/:bucket"
	}
	chain := zzvfbe.ChainTail(rt.method, pattern, 1)
	zzvf.Assert(len(chain) == 2, "route-is-registered-behind-the-acl-middleware")
	if len(chain) != 2 {
		return be, ev
	}
	_ = chain[0](ctx)
	if zzvfbe.W.NextCalls == 1 {
		zzvf.Reach("handler-entered")
		_ = chain[1](ctx)
	}
	return be, ev
}

// vfServeNative replays the same request against the real fiber stack (used when a counterexample is replayed natively):
// the request described by the model is sent through a real fiber.App with the real middleware and handler.
func vfServeNative(rt vfRoute, c controllers.S3ApiController, be *zzvfbe.Recorder, readonly bool) {
	r := zzvfbe.R
	app := fiber.New(fiber.Config{DisableStartupMessage: true})
	app.Use(func(ctx *fiber.Ctx) error {
		for k, v := range r.Locals {
			ctx.Locals(k, v)
		}
		return ctx.Next()
	})
	app.Use(middlewares.AclParser(be, nil, readonly))
	pattern := "/:bucket"
	if !rt.bucket {
		pattern = "/:bucket/:key/*"
	}
	app.Add(rt.method, pattern, rt.handler(c))
	target := r.Path
	sep := "?"
	for k := range vfQueryFlags {
		if v, ok := r.QueryGen(k); ok {
			target += sep + k
			if v != "" {
				target += "=" + v
			}
			sep = "&"
		}
	}
	for k := range vfQueryValues {
		if v, ok := r.QueryGen(k); ok {
			target += sep + k + "=" + v
			sep = "&"
		}
	}
	req := httptest.NewRequest(rt.method, target, bytes.NewReader(nil))
	for k := range vfHeaders {
		if v, ok := r.HeaderGen(k); ok {
			req.Header.Set(k, v)
		}
	}
	resp, err := app.Test(req, -1)
	if err == nil {
		zzvfbe.W.Status = resp.StatusCode
	}
}
