package utils

import (
	"encoding/base64"
	"encoding/hex"
	"io"
	"strconv"
	"strings"
	"time"

	"github.com/gofiber/fiber/v2"

	"github.com/versity/versitygw/internal/zzvf"
)

// ---- environment model: an underlying reader that delivers the encoded stream in fragments

type vfFragReader struct {
	data        []byte
	pos         int
	cuts        []int // fragment boundaries (absolute offsets)
	eofWithData bool  // last fragment returned together with io.EOF
	eofSeen     bool
}

func (r *vfFragReader) Read(p []byte) (int, error) {
	if r.pos >= len(r.data) {
		r.eofSeen = true
		return 0, io.EOF
	}
	if len(p) == 0 {
		return 0, nil
	}
	end := len(r.data)
	for _, c := range r.cuts {
		if c > r.pos && c < end {
			end = c
		}
	}
	n := copy(p, r.data[r.pos:end])
	r.pos += n
	if r.pos >= len(r.data) && r.eofWithData {
		r.eofSeen = true
		return n, io.EOF
	}
	return n, nil
}

// vfDrain reads r to the end with a fixed destination buffer size, like io.Copy does.
func vfDrain(r io.Reader, bufSize int, maxCalls int) (out []byte, err error, calls int) {
	for calls = 0; calls < maxCalls; calls++ {
		p := make([]byte, bufSize)
		n, e := r.Read(p)
		if n < 0 || n > bufSize {
			zzvf.Fail("read-count-in-range")
			return out, e, calls
		}
		out = append(out, p[:n]...)
		if e != nil {
			return out, e, calls + 1
		}
	}
	zzvf.Fail("reader-makes-progress")
	return out, nil, calls
}

var vfChunkVectors = [][]int{{2, 1}, {16, 1}, {1}, {3}, {1, 1, 1}, {10}, {}}

var vfBufSizes = []int{4096, 7, 64, 1}

var vfTrailers = []checksumType{checksumTypeCrc32, checksumTypeCrc32c, checksumTypeSha1, checksumTypeSha256, checksumTypeCrc64nvme}

// regions of the stream that belong to chunk headers other than the first one ([start,end) offsets)
type vfRegion struct{ start, end int }

var vfNonFirstHeaders []vfRegion
var vfMaxHeader int

func vfModelChecksum(ct checksumType, payload []byte) string {
	h, _ := getHasher(ct)
	h.Write(payload)
	return base64.StdEncoding.EncodeToString(h.Sum(nil))
}

// vfUnsignedStream builds a legal STREAMING-UNSIGNED-PAYLOAD-TRAILER body.
func vfUnsignedStream(payload []byte, sizes []int, ct checksumType) []byte {
	var s []byte
	off := 0
	for _, n := range sizes {
		s = append(s, strconv.FormatInt(int64(n), 16)...)
		s = append(s, "\r\n"...)
		s = append(s, payload[off:off+n]...)
		s = append(s, "\r\n"...)
		off += n
	}
	s = append(s, "0\r\n"...)
	s = append(s, string(ct)...)
	s = append(s, ':')
	s = append(s, vfModelChecksum(ct, payload)...)
	s = append(s, "\r\n\r\n"...)
	return s
}

// vfSigRegions: where the chunk signatures of the last stream built by vfSignedStream lie ([start,end) offsets)
var vfSigRegions []vfRegion

const vfSeedSig = "4f232c4386841ef735655705268965c44a0e4690baa4adea153f7db9fa80a0a9"

var vfDate = time.Date(2024, 5, 6, 7, 8, 9, 0, time.UTC)

// vfSignedStream builds a legal STREAMING-AWS4-HMAC-SHA256-PAYLOAD(-TRAILER) body; signatures come from the
// real getChunkStringToSign / getTrailerChunkStringToSign run on a second reader under the same hash model.
func vfSignedStream(payload []byte, sizes []int, ct checksumType) []byte {
	ref := &ChunkReader{
		signingKey: getSigningKey("secret", "us-east-1", vfDate),
		prevSig:    vfSeedSig,
		chunkHash:  zzvf.NewSHA256(),
		date:       vfDate,
		region:     "us-east-1",
		trailer:    ct,
	}
	var s []byte
	off := 0
	first := true
	all := append(append([]int{}, sizes...), 0)
	vfNonFirstHeaders = nil
	vfSigRegions = nil
	vfMaxHeader = 0
	for _, n := range all {
		hs := len(s)
		isFirst := first
		if !first {
			s = append(s, "\r\n"...)
		}
		first = false
		ref.chunkHash.Reset()
		ref.chunkHash.Write(payload[off : off+n])
		sig := hex.EncodeToString(hmac256(ref.signingKey, []byte(ref.getChunkStringToSign())))
		ref.prevSig = sig
		s = append(s, strconv.FormatInt(int64(n), 16)...)
		s = append(s, ";chunk-signature="...)
		vfSigRegions = append(vfSigRegions, vfRegion{len(s), len(s) + len(sig)})
		s = append(s, sig...)
		s = append(s, "\r\n"...)
		if !isFirst {
			vfNonFirstHeaders = append(vfNonFirstHeaders, vfRegion{hs, len(s)})
		}
		if len(s)-hs > vfMaxHeader {
			vfMaxHeader = len(s) - hs
		}
		s = append(s, payload[off:off+n]...)
		off += n
	}
	if ct != "" {
		ck := vfModelChecksum(ct, payload)
		ref.parsedChecksum = ck
		tsig := hex.EncodeToString(hmac256(ref.signingKey, []byte(ref.getTrailerChunkStringToSign())))
		s = append(s, string(ct)...)
		s = append(s, ':')
		s = append(s, ck...)
		s = append(s, "\r\n"...)
		s = append(s, trailerSignatureHeader...)
		s = append(s, ':')
		s = append(s, tsig...)
		s = append(s, "\r\n"...)
		// the trailer lines are parsed together with the final chunk header
		// (an empty payload has no other header than the first and final one)
		if len(vfNonFirstHeaders) > 0 {
			last := &vfNonFirstHeaders[len(vfNonFirstHeaders)-1]
			if len(s)-last.start > vfMaxHeader {
				vfMaxHeader = len(s) - last.start
			}
			last.end = len(s)
		} else if len(s) > vfMaxHeader {
			vfMaxHeader = len(s)
		}
	}
	s = append(s, "\r\n"...)
	return s
}

func vfSum(sizes []int) int {
	t := 0
	for _, n := range sizes {
		t += n
	}
	return t
}

// kind: 0 unsigned+trailer, 1 signed, 2 signed+trailer
func vfNewReader(kind int, under io.Reader, ct checksumType) io.Reader {
	var r io.Reader
	var err error
	switch kind {
	case 0:
		r, err = NewUnsignedChunkReader(under, ct, false)
	case 1:
		r, err = NewSignedChunkReader(under, AuthData{Signature: vfSeedSig}, "us-east-1", "secret", vfDate, "", false)
	default:
		r, err = NewSignedChunkReader(under, AuthData{Signature: vfSeedSig}, "us-east-1", "secret", vfDate, ct, false)
	}
	if err != nil {
		zzvf.Fail("reader-constructed")
	}
	return r
}

func vfBuildStream(kind int, payload []byte, sizes []int, ct checksumType) []byte {
	switch kind {
	case 0:
		return vfUnsignedStream(payload, sizes, ct)
	case 1:
		return vfSignedStream(payload, sizes, "")
	}
	return vfSignedStream(payload, sizes, ct)
}

// vfClass names the structural situation of a fragmentation, so that known defects of the signed reader are
// identified by situation and any failure in another situation is reported as new.
func vfClass(kind int, cuts []int, bufSize int, streamLen int) string {
	if kind == 0 {
		return "class=unsigned"
	}
	c := "class=signed"
	if bufSize < vfMaxHeader {
		return c + ",buffer-smaller-than-a-chunk-header"
	}
	for _, cut := range cuts {
		for i, r := range vfNonFirstHeaders {
			if cut > r.start && cut < r.end {
				if i == len(vfNonFirstHeaders)-1 {
					return c + ",cut-inside-final-chunk-header"
				}
				return c + ",cut-inside-nonfirst-chunk-header"
			}
		}
	}
	return c + ",cuts-outside-nonfirst-headers"
}

func vfValid(kind int) {
	nvec, nbuf := 2, 2
	if zzvf.Tier() == 1 {
		nvec, nbuf = len(vfChunkVectors), len(vfBufSizes)
	}
	var sizes []int
	bufSizes := vfBufSizes
	if kind == 0 {
		// unsigned reader: systematic family – up to 3 chunks of 1..3 bytes (thorough: 1..4), every buffer size 1..6 and 4096
		maxc := 3 + zzvf.Tier()
		zzvf.Bound("chunks_max", 3)
		zzvf.Bound("chunk_size_max", maxc)
		nch := zzvf.Choice("chunks", 4)
		for i := 0; i < nch; i++ {
			sizes = append(sizes, 1+zzvf.Choice("chunk_size", maxc))
		}
		bufSizes = []int{4096, 1, 2, 3, 4, 5, 6}
		nbuf = len(bufSizes)
	} else {
		zzvf.Bound("chunk_vectors", nvec)
		sizes = vfChunkVectors[zzvf.Choice("chunk_vector", nvec)]
	}
	zzvf.Bound("buffer_sizes", nbuf)
	nct := 1
	if zzvf.Tier() == 1 && kind != 1 {
		nct = len(vfTrailers)
	}
	ct := vfTrailers[zzvf.Choice("trailer_algo", nct)]
	payload := zzvf.BytesN("payload", vfSum(sizes))
	stream := vfBuildStream(kind, payload, sizes, ct)
	zzvf.Bound("stream_len", len(stream))
	bufSize := bufSizes[zzvf.Choice("buf_size", nbuf)]
	under := &vfFragReader{data: stream}
	// every single cut position; thorough: every pair for the short streams
	c1 := zzvf.Choice("cut1", len(stream)+1)
	under.cuts = []int{c1}
	if zzvf.Tier() == 1 && len(stream) <= 120 {
		c2 := c1 + zzvf.Choice("cut2", len(stream)+1-c1)
		under.cuts = append(under.cuts, c2)
	}
	if zzvf.Tier() == 1 {
		under.eofWithData = zzvf.Choice("eof_with_data", 2) == 1
	}
	zzvf.Trace(vfClass(kind, under.cuts, bufSize, len(stream)))
	r := vfNewReader(kind, under, ct)
	out, err, _ := vfDrain(r, bufSize, 4*len(stream)+16)
	zzvf.Reach("drained")
	zzvf.Assert(err == io.EOF, "valid-stream-ends-with-EOF")
	if err == io.EOF {
		zzvf.Reach("eof")
		zzvf.Assert(zzvf.BytesEq(out, payload), "decoded-equals-payload")
		if under.eofSeen {
			zzvf.Reach("underlying-EOF-seen-before-EOF")
		}
	}
}

// VfChunkUnsignedValid etc.: H12a for the three reader kinds.
func VfChunkUnsignedValid()      { vfValid(0) }
func VfChunkSignedValid()        { vfValid(1) }
func VfChunkSignedTrailerValid() { vfValid(2) }

func VfChunkWitness() {
	payload := zzvf.BytesN("payload", 3)
	stream := vfUnsignedStream(payload, []int{2, 1}, checksumTypeCrc32)
	under := &vfFragReader{data: stream, cuts: []int{zzvf.Choice("cut1", len(stream)+1)}}
	r := vfNewReader(0, under, checksumTypeCrc32)
	_, _, _ = vfDrain(r, 7, 200)
	zzvf.Fail("witness")
}

// ---- H12b: invalid streams are never accepted

// vfInvalid mutates a valid stream (one byte replaced, or truncated, or bytes appended) and requires that the reader
// never reports io.EOF having delivered something other than the original payload.
func vfInvalid(kind int) {
	nvec := 1
	if zzvf.Tier() == 1 {
		nvec = 3
	}
	sizes := vfChunkVectors[zzvf.Choice("chunk_vector", nvec)]
	ct := vfTrailers[0]
	payload := zzvf.BytesN("payload", vfSum(sizes))
	zzvf.AssumeCollisionFree("crc32")
	zzvf.AssumeCollisionFree("sha256")
	zzvf.AssumeCollisionFree("hmac-sha256")
	stream := vfBuildStream(kind, payload, sizes, ct)
	zzvf.Bound("stream_len", len(stream))
	nmodes := 3
	if kind != 0 {
		nmodes = 5 // signed streams: additionally one chunk signature removed altogether, an unsigned chunk smuggled in
	}
	mode := zzvf.Choice("mutation", nmodes)
	var bad []byte
	switch mode {
	case 3: // the signature value of one chunk removed ("chunk-signature=" followed directly by CRLF)
		which := vfSigRegions[zzvf.Choice("blank_signature_of_chunk", len(vfSigRegions))]
		bad = append(append([]byte{}, stream[:which.start]...), stream[which.end:]...)
		zzvf.Trace("mutation=blank-signature")
	case 4: // a data chunk whose signature value is empty, inserted right before the final chunk
		extra := zzvf.BytesN("smuggled", 1)
		at := 0
		ins := append([]byte("1;chunk-signature=\r\n"), extra...)
		if len(vfNonFirstHeaders) > 0 {
			at = vfNonFirstHeaders[len(vfNonFirstHeaders)-1].start
			ins = append([]byte("\r\n"), ins...)
		} else {
			ins = append(ins, "\r\n"...)
		}
		bad = append(append(append([]byte{}, stream[:at]...), ins...), stream[at:]...)
		zzvf.Trace("mutation=unsigned-chunk-inserted")
	case 0: // one byte replaced by a different value (the very first size digit is outside the bound: solver unknown)
		pos := 1 + zzvf.Choice("pos", len(stream)-1)
		nb := zzvf.Byte("newbyte")
		zzvf.Assume(nb != stream[pos])
		bad = append([]byte{}, stream...)
		bad[pos] = nb
		zzvf.Trace("mutation=flip")
	case 1: // truncated
		pos := zzvf.Choice("pos", len(stream))
		bad = append([]byte{}, stream[:pos]...)
		zzvf.Trace("mutation=truncate")
	default: // junk appended
		junk := zzvf.BytesN("junk", 1+zzvf.Choice("junk$n", 2))
		bad = append(append([]byte{}, stream...), junk...)
		zzvf.Trace("mutation=append")
	}
	under := &vfFragReader{data: bad}
	r := vfNewReader(kind, under, ct)
	out, err, _ := vfDrain(r, 4096, 4*len(stream)+16)
	if err == io.EOF {
		zzvf.Reach("accepted")
		// accepted: only legal if the decoded object is the original payload and the stream was semantically unchanged
		zzvf.Assert(zzvf.BytesEq(out, payload), "accepted-object-equals-payload")
		if mode == 1 || mode == 2 {
			zzvf.Fail("truncated-or-extended-stream-accepted")
		}
		if mode == 3 || mode == 4 {
			zzvf.Fail("stream-with-a-missing-chunk-signature-accepted")
		}
	} else {
		zzvf.Reach("rejected")
	}
}

func VfChunkUnsignedInvalid()      { vfInvalid(0) }
func VfChunkSignedInvalid()        { vfInvalid(1) }
func VfChunkSignedTrailerInvalid() { vfInvalid(2) }

// VfCrashChunk: C20 – both chunk decoders on arbitrary bytes: no panic, no allocation sized by the (unauthenticated) input,
// and the reader always terminates.
func VfCrashChunk() {
	n := 4 + 3*zzvf.Tier()
	zzvf.Bound("input_len_max", n)
	zzvf.Bound("alloc_limit", 1024) // an allocation of more than 1 KiB sized by these few unauthenticated bytes is reported
	kind := zzvf.Choice("reader", 2)
	data := zzvf.Bytes("input", n)
	under := &vfFragReader{data: data}
	var r io.Reader
	if kind == 0 {
		r = vfNewReader(0, under, checksumTypeCrc32)
	} else {
		r = vfNewReader(1, under, "")
	}
	_, _, _ = vfDrain(r, 64, 4*len(data)+16)
	zzvf.Reach("returned")
}

// ---- C02: deferred signature verification behind the chunk decoders

var vfHdr = map[string]string{}
var vfSigRuns int

func vfCtxGet(c *fiber.Ctx, key string, def ...string) string { return vfHdr[strings.ToLower(key)] }

func vfStubSig(ctx *fiber.Ctx, auth AuthData, secret, checksum string, tdate time.Time, contentLen int64, debug bool) error {
	vfSigRuns++
	return nil
}

// VfDeferredAuth: for a big-data upload the request signature is verified by AuthReader when the raw body reaches EOF.
// With a chunk decoder stacked on top (as the middleware does), a complete, valid body must therefore have been read to
// its end - and the verification must have run - by the time the decoder reports io.EOF to the backend.
func VfDeferredAuth() {
	kind := zzvf.Choice("reader", 3)
	sizes := vfChunkVectors[zzvf.Choice("chunk_vector", 2)]
	ct := vfTrailers[0]
	payload := zzvf.BytesN("payload", vfSum(sizes))
	stream := vfBuildStream(kind, payload, sizes, ct)
	vfHdr = map[string]string{"x-amz-date": "20240506T070809Z"}
	switch kind {
	case 0:
		vfHdr["x-amz-content-sha256"] = "STREAMING-UNSIGNED-PAYLOAD-TRAILER"
	case 1:
		vfHdr["x-amz-content-sha256"] = "STREAMING-AWS4-HMAC-SHA256-PAYLOAD"
	default:
		vfHdr["x-amz-content-sha256"] = "STREAMING-AWS4-HMAC-SHA256-PAYLOAD-TRAILER"
	}
	vfSigRuns = 0
	under := &vfFragReader{data: stream, eofWithData: zzvf.Choice("eof_with_data", 2) == 1}
	ar := NewAuthReader(new(fiber.Ctx), under, AuthData{Signature: vfSeedSig}, "secret", false)
	r := vfNewReader(kind, ar, ct)
	out, err, _ := vfDrain(r, 4096, 4*len(stream)+16)
	zzvf.Reach("drained")
	if err == io.EOF {
		zzvf.Reach("accepted")
		zzvf.Assert(zzvf.BytesEq(out, payload), "decoded-equals-payload")
		if kind == 0 {
			zzvf.Assert(vfSigRuns > 0, "signature-verified-before-body-accepted")
		} else {
			zzvf.Assert(vfSigRuns > 0, "signature-verified-before-body-accepted@signed-reader")
		}
	}
}

// VfCrashSignedHeader: C20 – the signed aws-chunked reader on a first chunk header whose size field is arbitrary (up to 2 (3)
// bytes, any value) followed by a well-formed signature part and a few data bytes: never panics, never allocates by input.
func VfCrashSignedHeader() {
	n := 2 + zzvf.Tier()
	zzvf.Bound("size_field_len_max", n)
	zzvf.Bound("alloc_limit", 1024)
	size := zzvf.String("size_field", n)
	data := zzvf.Bytes("data", 3)
	stream := append([]byte(size), (";chunk-signature=" + vfSeedSig + "\r\n")...)
	stream = append(stream, data...)
	stream = append(stream, "\r\n0;chunk-signature="+vfSeedSig+"\r\n\r\n"...)
	r := vfNewReader(1, &vfFragReader{data: stream}, "")
	_, _, _ = vfDrain(r, 64, 4*len(stream)+16)
	zzvf.Reach("returned")
}
