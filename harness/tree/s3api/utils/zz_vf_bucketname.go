package utils

import (
	"github.com/versity/versitygw/internal/zzvf"
)

// Reference: the S3 general-purpose bucket naming rules the property refers to (core rules).
func vfBucketNameRef(s string) bool {
	if len(s) < 3 || len(s) > 63 {
		return false
	}
	ok := true
	alnum := func(c byte) bool { return zzvf.Or(zzvf.And(c >= 'a', c <= 'z'), zzvf.And(c >= '0', c <= '9')) }
	for i := 0; i < len(s); i++ {
		c := s[i]
		ok = zzvf.And(ok, zzvf.Or(alnum(c), c == '.', c == '-'))
		if i > 0 {
			ok = zzvf.And(ok, zzvf.Not(zzvf.And(c == '.', s[i-1] == '.'))) // no adjacent periods
		}
	}
	ok = zzvf.And(ok, alnum(s[0]), alnum(s[len(s)-1]))
	return zzvf.And(ok, zzvf.Not(vfIsIPv4Shaped(s)))
}

// vfIsIPv4Shaped: four groups of 1..3 digits separated by dots (formatted as an IP address).
func vfIsIPv4Shaped(s string) bool {
	// dynamic programme over (position, group index, digits in group) without branching on symbolic bytes
	type st struct{ g, d int }
	cur := map[st]bool{{0, 0}: true}
	for i := 0; i < len(s); i++ {
		c := s[i]
		dig := zzvf.And(c >= '0', c <= '9')
		dot := c == '.'
		next := map[st]bool{}
		for k, v := range cur {
			if k.d < 3 {
				n := st{k.g, k.d + 1}
				next[n] = zzvf.Or(next[n], zzvf.And(v, dig))
			}
			if k.d >= 1 && k.g < 3 {
				n := st{k.g + 1, 0}
				next[n] = zzvf.Or(next[n], zzvf.And(v, dot))
			}
		}
		cur = next
	}
	r := false
	for k, v := range cur {
		if k.g == 3 && k.d >= 1 {
			r = zzvf.Or(r, v)
		}
	}
	return r
}

// VfBucketNameShort: every name of length 0..N.
func VfBucketNameShort() {
	n := 5 + 2*zzvf.Tier()
	zzvf.Bound("name_len_max", n)
	s := zzvf.String("name", n)
	got := IsValidBucketName(s, false)
	want := vfBucketNameRef(s)
	if got {
		zzvf.Reach("accepted")
	} else {
		zzvf.Reach("refused")
	}
	zzvf.Assert(zzvf.Implies(got, want), "accepted-name-obeys-the-rules")
	zzvf.Assert(zzvf.Implies(want, got), "legal-name-accepted")
}

// VfBucketNameLong: names around the 63 character limit (concrete filler, symbolic head and tail).
func VfBucketNameLong() {
	total := 61 + zzvf.Choice("total", 4) // 61..64
	k := 2
	zzvf.Bound("symbolic_bytes_each_end", k)
	head := zzvf.StringN("head", k)
	tail := zzvf.StringN("tail", k)
	fill := ""
	for len(fill) < total-2*k {
		fill += "a"
	}
	s := head + fill + tail
	got := IsValidBucketName(s, false)
	want := vfBucketNameRef(s)
	zzvf.Reach("checked")
	zzvf.Assert(zzvf.Implies(got, want), "accepted-name-obeys-the-rules")
	zzvf.Assert(zzvf.Implies(want, got), "legal-name-accepted")
}

// VfBucketNameIP: dotted-quad shaped names.
func VfBucketNameIP() {
	// d{1,2}.d{1,2}.d{1,2}.d{1,2} with symbolic bytes everywhere (shape by case split on group lengths)
	var s string
	for g := 0; g < 4; g++ {
		if g > 0 {
			s += zzvf.StringN("sep", 1)
		}
		s += zzvf.StringN("grp", 1+zzvf.Choice("grp$n", 1+zzvf.Tier()))
	}
	zzvf.Bound("groups", 4)
	got := IsValidBucketName(s, false)
	want := vfBucketNameRef(s)
	zzvf.Reach("checked")
	zzvf.Assert(zzvf.Implies(got, want), "accepted-name-obeys-the-rules")
	zzvf.Assert(zzvf.Implies(want, got), "legal-name-accepted")
}

func VfBucketNameWitness() {
	s := zzvf.String("name", 4)
	_ = IsValidBucketName(s, false)
	zzvf.Fail("witness")
}
