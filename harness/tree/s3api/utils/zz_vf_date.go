package utils

import (
	"time"

	"github.com/versity/versitygw/internal/zzvf"
)

// VfDateWindow: C02 – ValidateDate (header authentication) for an arbitrary request date and an arbitrary clock: the date
// is accepted exactly when it lies within 15 minutes of the gateway's clock.
func VfDateWindow() {
	zzvf.Bound("symbolic_clock", 1)
	zzvf.Bound("havoc_time_symbolic", 1)
	var date time.Time
	zzvf.Havoc(&date, "request_date")
	before := time.Now()
	err := ValidateDate(date)
	after := time.Now()
	zzvf.Reach("validated")
	// the clock value ValidateDate read lies between the two readings
	lo, hi := before.Unix(), after.Unix()
	d := date.Unix()
	if err == nil {
		zzvf.Reach("accepted")
		zzvf.Assert(zzvf.And(d-hi <= 900, lo-d <= 900), "accepted-date-lies-within-15-minutes-of-the-clock")
	} else {
		zzvf.Reach("refused")
		zzvf.Assert(zzvf.Or(d-lo > 900, hi-d > 900), "refused-date-lies-outside-the-window")
	}
}
