package s3api

import (
	"context"
	"encoding/json"
	"time"

	"github.com/aws/aws-sdk-go-v2/service/s3"
	"github.com/aws/aws-sdk-go-v2/service/s3/types"
	"github.com/versity/versitygw/auth"
	"github.com/versity/versitygw/internal/zzvf"
	"github.com/versity/versitygw/internal/zzvfbe"
	"github.com/versity/versitygw/s3err"
	"github.com/versity/versitygw/s3response"
)

// VfLockDecision: C10 – auth.CheckObjectAccess (real code) against the protection rule of the property:
// legal hold, unexpired COMPLIANCE, unexpired GOVERNANCE without (bypass and the bypass permission), bucket default retention.
func VfLockDecision() {
	zzvf.Bound("symbolic_clock", 1)
	zzvf.Bound("havoc_time_symbolic", 1)
	be := &zzvfbe.Recorder{}
	// bucket lock configuration (enabled; optional default retention)
	cfg := auth.BucketLockConfig{Enabled: true}
	var created time.Time
	zzvf.Havoc(&created, "created")
	defMode := types.ObjectLockRetentionMode("")
	defDays := int32(0)
	switch zzvf.Choice("default_retention", 3) {
	case 1:
		defMode = types.ObjectLockRetentionModeGovernance
	case 2:
		defMode = types.ObjectLockRetentionModeCompliance
	}
	if defMode != "" {
		defDays = zzvf.Int32("default_days")
		zzvf.Assume(zzvf.And(defDays >= 1, defDays <= 36500))
		cfg.DefaultRetention = &types.DefaultRetention{Mode: defMode, Days: &defDays}
		cfg.CreatedAt = &created
	}
	cfgBytes, _ := json.Marshal(cfg)
	zzvfbe.Hooks["GetObjectLockConfiguration"] = func(r *zzvfbe.Recorder, a []any) (any, error) { return cfgBytes, nil }
	// object state
	mode := types.ObjectLockRetentionMode("")
	switch zzvf.Choice("retention_mode", 3) {
	case 1:
		mode = types.ObjectLockRetentionModeGovernance
	case 2:
		mode = types.ObjectLockRetentionModeCompliance
	}
	var until time.Time
	zzvf.Havoc(&until, "until")
	var retBytes []byte
	if mode != "" {
		retBytes, _ = json.Marshal(types.ObjectLockRetention{Mode: mode, RetainUntilDate: &until})
	}
	zzvfbe.Hooks["GetObjectRetention"] = func(r *zzvfbe.Recorder, a []any) (any, error) {
		if retBytes == nil {
			return nil, s3err.GetAPIError(s3err.ErrNoSuchObjectLockConfiguration)
		}
		return retBytes, nil
	}
	hold := zzvf.Bool("legal_hold")
	holdSet := zzvf.Choice("legal_hold_set", 2) == 1
	zzvfbe.Hooks["GetObjectLegalHold"] = func(r *zzvfbe.Recorder, a []any) (any, error) {
		if !holdSet {
			return (*bool)(nil), s3err.GetAPIError(s3err.ErrNoSuchObjectLockConfiguration)
		}
		h := hold
		return &h, nil
	}
	// bucket policy: grants the caller the bypass permission or not (or no policy)
	pm := zzvf.Choice("policy", 3)
	var pol []byte
	if pm != 0 {
		item := auth.BucketPolicyItem{Effect: auth.BucketPolicyAccessTypeAllow, Principals: auth.Principals{"caller": struct{}{}},
			Actions: auth.Actions{auth.BypassGovernanceRetentionAction: struct{}{}}, Resources: auth.Resources{"bkt/*": struct{}{}}}
		if pm == 2 {
			item.Actions = auth.Actions{auth.GetObjectAction: struct{}{}}
		}
		pol, _ = json.Marshal(auth.BucketPolicy{Statement: []auth.BucketPolicyItem{item}})
	}
	zzvfbe.Hooks["GetBucketPolicy"] = func(r *zzvfbe.Recorder, a []any) (any, error) {
		if pol == nil {
			return nil, s3err.GetAPIError(s3err.ErrNoSuchBucketPolicy)
		}
		return pol, nil
	}
	bypass := zzvf.Bool("bypass")
	key := "obj"
	err := auth.CheckObjectAccess(context.Background(), "bkt", "caller", []types.ObjectIdentifier{{Key: &key}}, bypass, be)
	now := time.Now() // the clock model is non-decreasing: this instant is not earlier than the ones the check used
	mayBypass := zzvf.And(bypass, pm == 1)
	protected := zzvf.And(holdSet, hold)
	if mode == types.ObjectLockRetentionModeCompliance {
		protected = zzvf.Or(protected, until.After(now))
	}
	if mode == types.ObjectLockRetentionModeGovernance {
		protected = zzvf.Or(protected, zzvf.And(until.After(now), zzvf.Not(mayBypass)))
	}
	if err != nil {
		zzvf.Reach("refused")
	} else {
		zzvf.Reach("let-through")
	}
	zzvf.Assert(zzvf.Implies(protected, err != nil), "protected-version-is-refused")
}

// destructive backend calls and the keys they replace or remove
func vfDestroys(c zzvfbe.Call) (bucket string, keys []string, ok bool) {
	switch a := c.Args[0].(type) {
	case s3response.PutObjectInput:
		if c.Method == "PutObject" {
			return *a.Bucket, []string{*a.Key}, true
		}
	case s3response.CopyObjectInput:
		return *a.Bucket, []string{*a.Key}, true
	case *s3.CompleteMultipartUploadInput:
		return *a.Bucket, []string{*a.Key}, true
	case *s3.DeleteObjectInput:
		return *a.Bucket, []string{*a.Key}, true
	case *s3.DeleteObjectsInput:
		for _, o := range a.Delete.Objects {
			keys = append(keys, *o.Key)
		}
		return *a.Bucket, keys, true
	}
	return "", nil, false
}

// VfLockRoutes: C10 – every route that can destroy or replace an object version consults the lock check for exactly
// the keys it touches before calling the backend.
func VfLockRoutes() {
	zzvf.Bound("havoc_str", 1)
	zzvf.Bound("havoc_str_fixed", 1)
	zzvf.Bound("havoc_slice", 2)
	vfPolicyModes = 1
	vfCallerFirst = 3
	zzvfbe.ResetChecks()
	rt := vfRoutes[zzvf.Choice("route", len(vfRoutes))]
	be, _ := vfServe(rt, false)
	zzvf.Reach("returned")
	for i, call := range be.Calls {
		bucket, keys, ok := vfDestroys(call)
		if !ok {
			continue
		}
		zzvf.Reach("destructive-call")
		for _, k := range keys {
			found := false
			for _, ck := range zzvfbe.Checks {
				if ck.Kind != "lock" || !ck.Granted || ck.At > i || ck.Opts.Bucket != bucket {
					continue
				}
				for _, o := range ck.Objects {
					if o.Key != nil && *o.Key == k {
						found = true
					}
				}
			}
			if !found {
				zzvf.Trace("route=" + rt.name + " call=" + call.Method)
				zzvf.Fail("destructive-call-preceded-by-lock-check-for-that-key")
			}
		}
	}
}

// VfLockDecisionBatch: C10 – auth.CheckObjectAccess (real code, real policy evaluation) on a batch of two keys that are both
// under unexpired GOVERNANCE retention, with the bypass flag set and a bucket policy that grants the bypass permission for
// none, the first, the second or both keys: the batch is let through only if the caller may bypass for every key in it -
// the decision is taken per object.
func VfLockDecisionBatch() {
	be := &zzvfbe.Recorder{}
	cfgBytes, _ := json.Marshal(auth.BucketLockConfig{Enabled: true})
	zzvfbe.Hooks["GetObjectLockConfiguration"] = func(r *zzvfbe.Recorder, a []any) (any, error) { return cfgBytes, nil }
	until := time.Now().Add(1000 * time.Hour)
	retBytes, _ := json.Marshal(types.ObjectLockRetention{Mode: types.ObjectLockRetentionModeGovernance, RetainUntilDate: &until})
	zzvfbe.Hooks["GetObjectRetention"] = func(r *zzvfbe.Recorder, a []any) (any, error) { return retBytes, nil }
	zzvfbe.Hooks["GetObjectLegalHold"] = func(r *zzvfbe.Recorder, a []any) (any, error) {
		return (*bool)(nil), s3err.GetAPIError(s3err.ErrNoSuchObjectLockConfiguration)
	}
	keys := []string{"scratch/a", "ledger/b"}
	grant := []bool{zzvf.Choice("may_bypass_first_key", 2) == 1, zzvf.Choice("may_bypass_second_key", 2) == 1}
	res := auth.Resources{}
	for i, k := range keys {
		if grant[i] {
			res["bkt/"+k] = struct{}{}
		}
	}
	var pol []byte
	if len(res) > 0 {
		pol, _ = json.Marshal(auth.BucketPolicy{Statement: []auth.BucketPolicyItem{{Effect: auth.BucketPolicyAccessTypeAllow,
			Principals: auth.Principals{"caller": struct{}{}}, Actions: auth.Actions{auth.BypassGovernanceRetentionAction: struct{}{}}, Resources: res}}})
	}
	zzvfbe.Hooks["GetBucketPolicy"] = func(r *zzvfbe.Recorder, a []any) (any, error) {
		if pol == nil {
			return nil, s3err.GetAPIError(s3err.ErrNoSuchBucketPolicy)
		}
		return pol, nil
	}
	order := zzvf.Choice("order", 2)
	objs := []types.ObjectIdentifier{{Key: &keys[order]}, {Key: &keys[1-order]}}
	err := auth.CheckObjectAccess(context.Background(), "bkt", "caller", objs, true, be)
	if err != nil {
		zzvf.Reach("refused")
	} else {
		zzvf.Reach("let-through")
	}
	zzvf.Assert((err == nil) == (grant[0] && grant[1]), "batch-is-let-through-only-if-every-key-may-be-bypassed")
}
