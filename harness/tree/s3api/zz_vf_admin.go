package s3api

import (
	"github.com/gofiber/fiber/v2"
	"github.com/versity/versitygw/auth"
	"github.com/versity/versitygw/internal/zzvf"
	"github.com/versity/versitygw/internal/zzvfbe"
	"github.com/versity/versitygw/s3api/middlewares"
)

// vfAdminIAM records what the admin handlers ask of the account service.
type vfAdminIAM struct {
	mutations, lists, lookups int
}

func (i *vfAdminIAM) CreateAccount(a auth.Account) error { i.mutations++; return nil }
func (i *vfAdminIAM) GetUserAccount(access string) (auth.Account, error) {
	i.lookups++
	if zzvf.Choice("account_exists", 2) == 1 {
		return auth.Account{Access: access, Role: auth.RoleUser}, nil
	}
	return auth.Account{}, auth.ErrNoSuchUser
}
func (i *vfAdminIAM) UpdateUserAccount(access string, p auth.MutableProps) error {
	i.mutations++
	return nil
}
func (i *vfAdminIAM) DeleteUserAccount(access string) error { i.mutations++; return nil }
func (i *vfAdminIAM) ListUserAccounts() ([]auth.Account, error) {
	i.lists++
	return []auth.Account{{Access: "someone", Secret: "s3cr3t"}}, nil
}
func (i *vfAdminIAM) Shutdown() error { return nil }

// VfAdminRoutes: C03 (admin API role gate) – the real router (S3ApiRouter.Init with the admin API enabled) is executed with
// the route registration recorded; for every route it registers with method PATCH (the admin API) the installed handler
// chain is run for an admin, a userplus and a user account with arbitrary request documents and query values. Oracle: for a
// caller who is not an admin no account is created, changed, deleted or listed, no bucket owner is changed, no bucket
// list with owners is produced, and the answer is an error; every admin route is behind the gate.
func VfAdminRoutes() {
	zzvfbe.Routes = nil
	iam := &vfAdminIAM{}
	be := &zzvfbe.Recorder{}
	app := new(fiber.App)
	(&S3ApiRouter{WithAdmSrv: true}).Init(app, be, iam, nil, nil, nil, nil, false, false)
	var admin []zzvfbe.Route
	for _, rt := range zzvfbe.Routes {
		if rt.Method == "PATCH" {
			admin = append(admin, rt)
		}
	}
	zzvf.Assert(len(admin) == 6, "six-admin-routes-registered")
	if len(admin) == 0 {
		return
	}
	rt := admin[zzvf.Choice("admin_route", len(admin))]
	zzvf.Trace("route=" + rt.Path)
	ctx := zzvfbe.NewRequest()
	r := zzvfbe.R
	r.Method = "PATCH"
	r.Path = rt.Path
	role := []auth.Role{auth.RoleAdmin, auth.RoleUserPlus, auth.RoleUser}[zzvf.Choice("caller_role", 3)]
	r.Locals["account"] = auth.Account{Access: "caller", Role: role}
	r.Locals["isRoot"] = false
	r.Body = zzvf.OpaqueBytes("request-body")
	r.QueryGen = func(key string) (string, bool) {
		if zzvf.Choice("q."+key, 2) == 0 {
			return "", false
		}
		return "v", true
	}
	_ = zzvfbe.RunChain(ctx, rt.Handlers)
	zzvf.Reach("responded")
	mutated, disclosed := 0, 0
	for _, c := range be.Calls {
		switch c.Method {
		case "ChangeBucketOwner":
			mutated++
		case "ListBucketsAndOwners":
			disclosed++
		}
	}
	if role != auth.RoleAdmin {
		zzvf.Reach("non-admin")
		zzvf.Assert(iam.mutations == 0, "non-admin-changes-no-account")
		zzvf.Assert(iam.lists == 0, "non-admin-lists-no-accounts")
		zzvf.Assert(mutated == 0, "non-admin-changes-no-bucket-owner")
		zzvf.Assert(disclosed == 0, "non-admin-lists-no-bucket-owners")
		zzvf.Assert(zzvfbe.W.Status >= 400, "non-admin-gets-an-error")
	} else if iam.mutations+iam.lists+mutated+disclosed > 0 {
		zzvf.Reach("admin-served")
	}
}

// VfAdminAuthChain: C02 for the admin API – the middleware chain and routes the real admin server constructor installs
// (NewAdminServer: URL decoder, header authentication, MD5, admin role gate, admin router) on a recording fiber.App, for
// every admin route and requests without credentials, with well-formed credentials of an unknown key, of a known non-admin
// key and of a known admin key; the signature computation is the recording stand-in with an arbitrary verdict. Oracle: an
// account is created, changed, deleted or listed and a bucket owner changed or listed only after a verification that
// succeeded for an admin account; everything else is answered with an error.
func VfAdminAuthChain() {
	zzvfbe.Routes = nil
	iam := &vfAdminIAM{}
	be := &zzvfbe.Recorder{}
	zzvfbe.Current = be
	zzvfbe.SigChecks = nil
	zzvfbe.ResetChecks()
	root := middlewares.RootUserConfig{Access: "root", Secret: "rootsec"}
	NewAdminServer(new(fiber.App), be, root, "7071", "us-east-1", vfAdminAccounts{iam}, nil)
	var admin []zzvfbe.Route
	for _, rt := range zzvfbe.Routes {
		if rt.Method == "PATCH" {
			admin = append(admin, rt)
		}
	}
	zzvf.Assert(len(admin) == 6, "six-admin-routes-registered")
	if len(admin) == 0 {
		return
	}
	rt := admin[zzvf.Choice("admin_route", len(admin))]
	zzvf.Trace("route=" + rt.Path)
	ctx := zzvfbe.NewRequest()
	r := zzvfbe.R
	r.Method = "PATCH"
	r.Path = rt.Path
	r.Locals["region"] = "us-east-1"
	const scope = "/20240506/us-east-1/s3/aws4_request"
	cred := zzvf.Choice("credentials", 4) // 0 none, 1 unknown key, 2 known user, 3 known admin
	who := []string{"", "nobody", "caller", "adm"}[cred]
	if cred != 0 {
		r.SetHeader("Authorization", "AWS4-HMAC-SHA256 Credential="+who+scope+",SignedHeaders=host,Signature=abcd")
		r.SetHeader("X-Amz-Date", "20240506T070809Z")
		r.SetHeader("X-Amz-Content-Sha256", "UNSIGNED-PAYLOAD")
	}
	r.Body = zzvf.OpaqueBytes("request-body")
	r.QueryGen = func(key string) (string, bool) {
		if zzvf.Choice("q."+key, 2) == 0 {
			return "", false
		}
		return "v", true
	}
	chain := zzvfbe.ChainFor("PATCH", rt.Path)
	zzvf.Assert(len(chain) >= 4, "admin-route-is-registered-behind-the-middlewares")
	_ = zzvfbe.RunChain(ctx, chain)
	zzvf.Reach("answered")
	verified := false
	for _, s := range zzvfbe.SigChecks {
		if s.Valid {
			verified = true
		}
	}
	effects := iam.mutations + iam.lists
	for _, c := range be.Calls {
		if c.Method == "ChangeBucketOwner" || c.Method == "ListBucketsAndOwners" {
			effects++
		}
	}
	if effects > 0 {
		zzvf.Reach("admin-served")
		zzvf.Assert(verified, "admin-effect-only-after-a-verified-signature")
		zzvf.Assert(cred == 3, "admin-effect-only-for-an-admin-account")
	}
	if cred != 3 || !verified {
		zzvf.Assert(zzvfbe.W.Status >= 400, "request-without-valid-admin-credentials-is-answered-with-an-error")
	}
}

// vfAdminAccounts resolves the access keys used above and forwards the admin calls to the recorder.
type vfAdminAccounts struct{ *vfAdminIAM }

func (a vfAdminAccounts) GetUserAccount(access string) (auth.Account, error) {
	switch access {
	case "caller":
		return auth.Account{Access: "caller", Secret: "sec", Role: auth.RoleUser}, nil
	case "adm":
		return auth.Account{Access: "adm", Secret: "sec2", Role: auth.RoleAdmin}, nil
	}
	return a.vfAdminIAM.GetUserAccount(access)
}
