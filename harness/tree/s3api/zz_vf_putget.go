package s3api

import (
	"bytes"
	"encoding/hex"
	"io"
	"strconv"

	"github.com/gofiber/fiber/v2"
	"github.com/versity/versitygw/auth"
	"github.com/versity/versitygw/backend/posix"
	"github.com/versity/versitygw/internal/zzvf"
	"github.com/versity/versitygw/internal/zzvfbe"
	"github.com/versity/versitygw/s3api/controllers"
)

func vfRootRequest(method, path string) *fiber.Ctx {
	ctx := zzvfbe.NewRequest()
	r := zzvfbe.R
	r.Method = method
	r.Locals["account"] = auth.Account{Access: "root", Role: auth.RoleAdmin}
	r.Locals["isRoot"] = true
	r.Locals["rootAccess"] = "root"
	r.Locals["region"] = "us-east-1"
	r.Locals["parsedAcl"] = auth.ACL{Owner: "root"}
	r.Locals["isPublicBucket"] = false
	r.Params["bucket"] = "bkt"
	r.Params["key"] = "k"
	r.Params["*1"] = ""
	r.Path = path
	return ctx
}

// VfPutGetE2E: C01 end to end – PUT then GET and HEAD of one object through the real route handlers (header plumbing,
// response helpers) over the real posix backend on the file-system model: symbolic body (0..2 (3) bytes), content type,
// content encoding, cache control and one user metadata value. The GET returns exactly the uploaded bytes with the
// announced length, the ETag the PUT answered with (quoted hex MD5), and every content header and the user metadata as
// uploaded; HEAD agrees with GET.
func VfPutGetE2E() {
	n := 2 + zzvf.Tier()
	zzvf.Bound("body_len_max", n)
	be := posix.VfWorldWithBucket()
	c := controllers.New(be, nil, nil, nil, nil, false, false)
	body := zzvf.Bytes("body", n)
	ctype, cenc, cache, mval := zzvf.StringN("content_type", 1), zzvf.StringN("content_encoding", 1), zzvf.StringN("cache_control", 1), zzvf.StringN("meta_value", 1)
	// PUT
	ctx := vfRootRequest("PUT", "/bkt/k")
	r := zzvfbe.R
	r.SetHeader("Content-Length", strconv.Itoa(len(body)))
	r.SetHeader("Content-Type", ctype)
	r.SetHeader("Content-Encoding", cenc)
	r.SetHeader("Cache-Control", cache)
	r.SetHeader("X-Amz-Meta-Owner", mval)
	r.Locals["body-reader"] = bytes.NewReader(body)
	_ = c.PutActions(ctx)
	zzvf.Assert(zzvfbe.W.Status == 200, "put-answers-200")
	if zzvfbe.W.Status != 200 {
		return
	}
	sum := zzvf.SumMD5(body)
	wantETag := "\"" + hex.EncodeToString(sum[:]) + "\""
	zzvf.Assert(zzvfbe.W.Headers["ETag"] == wantETag, "put-answers-with-the-md5-etag")
	// GET
	ctx = vfRootRequest("GET", "/bkt/k")
	_ = c.GetActions(ctx)
	w := zzvfbe.W
	zzvf.Reach("read-back")
	zzvf.Assert(w.Status == 200, "get-answers-200")
	var got []byte
	if w.StreamSet && w.Stream != nil {
		got, _ = io.ReadAll(w.Stream)
	}
	zzvf.Assert(zzvf.BytesEq(got, body), "get-returns-the-uploaded-bytes")
	zzvf.Assert(w.StreamSet && w.StreamSize == len(body), "get-announces-the-uploaded-length")
	zzvf.Assert(w.Headers["ETag"] == wantETag, "get-etag-is-the-put-etag")
	zzvf.Assert(w.Headers["Content-Type"] == ctype, "get-content-type-as-uploaded")
	zzvf.Assert(w.Headers["Content-Encoding"] == cenc, "get-content-encoding-as-uploaded")
	zzvf.Assert(w.Headers["Cache-Control"] == cache, "get-cache-control-as-uploaded")
	gotMeta := w.Headers["X-Amz-Meta-owner"]
	if gotMeta == "" {
		gotMeta = w.Headers["X-Amz-Meta-Owner"]
	}
	zzvf.Assert(gotMeta == mval, "get-user-metadata-as-uploaded")
	getETag, getType := w.Headers["ETag"], w.Headers["Content-Type"]
	// HEAD
	ctx = vfRootRequest("HEAD", "/bkt/k")
	_ = c.HeadObject(ctx)
	w = zzvfbe.W
	zzvf.Assert(w.Status == 200, "head-answers-200")
	zzvf.Assert(zzvf.And(w.Headers["ETag"] == getETag, w.Headers["Content-Type"] == getType), "head-agrees-with-get")
	zzvf.Assert(w.Headers["Content-Length"] == strconv.Itoa(len(body)), "head-announces-the-uploaded-length")
}

// VfCopySourceNoCrash: C20 end to end – CopyObject and UploadPartCopy requests of root, an admin and a plain bucket owner with
// degenerate X-Amz-Copy-Source values (empty once decoded and stripped, bucket only, doubly encoded, well formed) through
// the real route handler over the real posix backend: no panic, an answer every time.
func VfCopySourceNoCrash() {
	be, _ := posix.VfWorldWithObject(1)
	c := controllers.New(be, nil, nil, nil, nil, false, false)
	ctx := vfRootRequest("PUT", "/bkt/dst")
	r := zzvfbe.R
	r.Params["key"] = "dst"
	switch zzvf.Choice("caller", 3) {
	case 1:
		r.Locals["account"] = auth.Account{Access: "adm", Role: auth.RoleAdmin}
		r.Locals["isRoot"] = false
	case 2:
		r.Locals["account"] = auth.Account{Access: "owner", Role: auth.RoleUser}
		r.Locals["isRoot"] = false
		r.Locals["parsedAcl"] = auth.ACL{Owner: "owner"}
	}
	sources := []string{"bkt/k", "/bkt/k", "%2F", "/", "//", "/%2F", "bkt", "bkt/", "%2Fbkt%2Fk", "bkt/k?versionId=", "?versionId=x"}
	src := sources[zzvf.Choice("copy_source", len(sources))]
	r.SetHeader("X-Amz-Copy-Source", src)
	zzvf.Trace("copy source: " + src)
	if zzvf.Choice("upload_part_copy", 2) == 1 {
		r.SetQuery("uploadId", "nosuchupload")
		r.SetQuery("partNumber", "1")
	}
	_ = c.PutActions(ctx)
	zzvf.Reach("answered")
	zzvf.Assert(zzvfbe.W.Status >= 200, "request-is-answered")
}
