package s3api

import (
	"context"
	"encoding/json"

	"github.com/aws/aws-sdk-go-v2/service/s3"
	"github.com/aws/aws-sdk-go-v2/service/s3/types"
	"github.com/versity/versitygw/auth"
	"github.com/versity/versitygw/internal/zzvf"
	"github.com/versity/versitygw/internal/zzvfbe"
	"github.com/versity/versitygw/s3err"
)

var vfPerms = []auth.Permission{auth.PermissionRead, auth.PermissionWrite, auth.PermissionReadAcp, auth.PermissionWriteAcp, auth.PermissionFullControl}

// vfSymACL: up to max grantees; the grantee is a symbolic one-byte account id or the all-users group, the permission any of the five.
func vfSymACL(tag string, max int) auth.ACL {
	acl := auth.ACL{Owner: "owner"}
	n := zzvf.Choice(tag+"$grantees", max+1)
	for i := 0; i < n; i++ {
		g := auth.Grantee{Permission: vfPerms[zzvf.Choice(tag+"$perm", len(vfPerms))], Type: types.TypeCanonicalUser}
		if zzvf.Choice(tag+"$group", 2) == 1 {
			g.Access, g.Type = "all-users", types.TypeGroup
		} else {
			g.Access = zzvf.StringN(tag+"$who", 1)
		}
		acl.Grantees = append(acl.Grantees, g)
	}
	return acl
}

// reference: the ACL grants perm to who (directly, by FULL_CONTROL, or through the all-users group)
func vfAclGrants(acl auth.ACL, who string, perm auth.Permission) bool {
	r := false
	for _, g := range acl.Grantees {
		if g.Type == types.TypeCanonicalUser && (g.Permission == perm || g.Permission == auth.PermissionFullControl) {
			r = zzvf.Or(r, g.Access == who)
		}
		if g.Type == types.TypeGroup && g.Access == "all-users" && g.Permission == perm {
			r = true
		}
	}
	return r
}

// policy for bucket b: 0 none, 1 allows principal everything on b and b/*, 2 denies principal everything
func vfPolicyFor(bucket string, mode int, principal string) []byte {
	if mode == 0 {
		return nil
	}
	item := auth.BucketPolicyItem{
		Effect:     auth.BucketPolicyAccessTypeAllow,
		Principals: auth.Principals{principal: struct{}{}},
		Actions:    auth.Actions{"s3:*": struct{}{}},
		Resources:  auth.Resources{bucket: struct{}{}, bucket + "/*": struct{}{}},
	}
	if mode == 2 {
		item.Effect = auth.BucketPolicyAccessTypeDeny
	}
	b, _ := json.Marshal(auth.BucketPolicy{Statement: []auth.BucketPolicyItem{item}})
	return b
}

// reference decision for one resource: policy (if any) decides alone, otherwise the ACL
func vfDecisionRef(isRoot bool, role auth.Role, who string, policyMode int, principal string, acl auth.ACL, perm auth.Permission, readonly bool) bool {
	if readonly && (perm == auth.PermissionWrite || perm == auth.PermissionWriteAcp) {
		return false
	}
	if isRoot || role == auth.RoleAdmin {
		return true
	}
	if policyMode != 0 {
		// a policy is set: it alone decides (an Allow for the caller's id; a Deny or a statement for somebody else: denied)
		return zzvf.And(policyMode == 1, principal == who)
	}
	return vfAclGrants(acl, who, perm)
}

func vfRoles(i int) (bool, auth.Role) {
	switch i {
	case 0:
		return true, auth.RoleAdmin
	case 1:
		return false, auth.RoleAdmin
	case 2:
		return false, auth.RoleUserPlus
	}
	return false, auth.RoleUser
}

// VfVerifyAccess: C03 – the decision function itself: root/admin bypass, then policy (if any) else ACL.
func VfVerifyAccess() {
	isRoot, role := vfRoles(zzvf.Choice("role", 4))
	who := zzvf.StringN("caller", 1)
	principal := zzvf.StringN("principal", 1)
	zzvf.Assume(zzvf.And(principal != "*", who != "*"))
	acl := vfSymACL("acl", 2)
	pm := zzvf.Choice("policy", 3)
	perm := vfPerms[zzvf.Choice("perm", len(vfPerms))]
	readonly := zzvf.Choice("readonly", 2) == 1
	be := &zzvfbe.Recorder{}
	pol := vfPolicyFor("bkt", pm, principal)
	zzvfbe.Hooks["GetBucketPolicy"] = func(rec *zzvfbe.Recorder, args []any) (any, error) {
		if pol == nil {
			return nil, s3err.GetAPIError(s3err.ErrNoSuchBucketPolicy)
		}
		return pol, nil
	}
	err := auth.VerifyAccess(context.Background(), be, auth.AccessOptions{
		Acl: acl, AclPermission: perm, IsRoot: isRoot, Acc: auth.Account{Access: who, Role: role},
		Bucket: "bkt", Object: "obj", Action: auth.GetObjectAction, Readonly: readonly,
	})
	want := vfDecisionRef(isRoot, role, who, pm, principal, acl, perm, readonly)
	if err == nil {
		zzvf.Reach("granted")
	} else {
		zzvf.Reach("denied")
	}
	zzvf.Assert((err == nil) == want, "access-decision-equals-reference")
}

// VfCopyAccess: C03 – a copy needs write access to the destination AND read access to the source, each decided with
// the policy/ACL of its own bucket.
func VfCopyAccess() {
	isRoot, role := vfRoles(zzvf.Choice("role", 4))
	who := zzvf.StringN("caller", 1)
	dprinc, sprinc := zzvf.StringN("dstprincipal", 1), zzvf.StringN("srcprincipal", 1)
	zzvf.Assume(zzvf.And(dprinc != "*", sprinc != "*", who != "*"))
	dstACL := vfSymACL("dst", 1)
	srcACL := vfSymACL("src", 1)
	dpm := zzvf.Choice("dstpolicy", 3)
	spm := zzvf.Choice("srcpolicy", 3)
	readonly := zzvf.Choice("readonly", 2) == 1
	be := &zzvfbe.Recorder{}
	dpol, spol := vfPolicyFor("dstbkt", dpm, dprinc), vfPolicyFor("srcbkt", spm, sprinc)
	zzvfbe.Hooks["GetBucketPolicy"] = func(rec *zzvfbe.Recorder, args []any) (any, error) {
		p := dpol
		if args[0].(string) == "srcbkt" {
			p = spol
		}
		if p == nil {
			return nil, s3err.GetAPIError(s3err.ErrNoSuchBucketPolicy)
		}
		return p, nil
	}
	srcBytes, _ := json.Marshal(srcACL)
	dstBytes, _ := json.Marshal(dstACL)
	zzvfbe.Hooks["GetBucketAcl"] = func(rec *zzvfbe.Recorder, args []any) (any, error) {
		if *args[0].(*s3.GetBucketAclInput).Bucket == "srcbkt" {
			return srcBytes, nil
		}
		return dstBytes, nil
	}
	err := auth.VerifyObjectCopyAccess(context.Background(), be, "srcbkt/srcobj", auth.AccessOptions{
		Acl: dstACL, AclPermission: auth.PermissionWrite, IsRoot: isRoot, Acc: auth.Account{Access: who, Role: role},
		Bucket: "dstbkt", Object: "dstobj", Action: auth.PutObjectAction, Readonly: readonly,
	})
	want := zzvf.And(vfDecisionRef(isRoot, role, who, dpm, dprinc, dstACL, auth.PermissionWrite, readonly),
		vfDecisionRef(isRoot, role, who, spm, sprinc, srcACL, auth.PermissionRead, false))
	if err == nil {
		zzvf.Reach("granted")
	} else {
		zzvf.Reach("denied")
	}
	zzvf.Assert((err == nil) == want, "copy-decision-needs-destination-write-and-source-read")
}

// VfCopyAccessSameBucket: C03 – VerifyObjectCopyAccess (real code incl. real policy evaluation) for a copy inside one bucket
// under a policy that distinguishes keys: the statement set allows the caller any subset of {write the destination key,
// read the source key, read the destination key, write the source key}. The copy is granted exactly when the caller may
// write the destination key AND read the source key (plain user, not owner; the policy decides alone).
func VfCopyAccessSameBucket() {
	who := "caller"
	var items []auth.BucketPolicyItem
	grant := func(name string, action auth.Action, key string) bool {
		if zzvf.Choice(name, 2) == 0 {
			return false
		}
		items = append(items, auth.BucketPolicyItem{Effect: auth.BucketPolicyAccessTypeAllow, Principals: auth.Principals{who: struct{}{}},
			Actions: auth.Actions{action: struct{}{}}, Resources: auth.Resources{"bkt/" + key: struct{}{}}})
		return true
	}
	putDst := grant("may_put_destination", auth.PutObjectAction, "dstobj")
	getSrc := grant("may_get_source", auth.GetObjectAction, "srcobj")
	grant("may_get_destination", auth.GetObjectAction, "dstobj")
	grant("may_put_source", auth.PutObjectAction, "srcobj")
	// a statement about something else keeps the policy non-empty (with no policy at all the ACL would decide)
	items = append(items, auth.BucketPolicyItem{Effect: auth.BucketPolicyAccessTypeAllow, Principals: auth.Principals{who: struct{}{}},
		Actions: auth.Actions{auth.ListBucketAction: struct{}{}}, Resources: auth.Resources{"bkt": struct{}{}}})
	pol, _ := json.Marshal(auth.BucketPolicy{Statement: items})
	be := &zzvfbe.Recorder{}
	zzvfbe.Hooks["GetBucketPolicy"] = func(rec *zzvfbe.Recorder, args []any) (any, error) { return pol, nil }
	acl := auth.ACL{Owner: "owner"}
	aclBytes, _ := json.Marshal(acl)
	zzvfbe.Hooks["GetBucketAcl"] = func(rec *zzvfbe.Recorder, args []any) (any, error) { return aclBytes, nil }
	source := "bkt/srcobj"
	if zzvf.Choice("source_names_a_version", 2) == 1 {
		source += "?versionId=v1" // the decision is about the key, whatever version of it is copied
	}
	err := auth.VerifyObjectCopyAccess(context.Background(), be, source, auth.AccessOptions{
		Acl: acl, AclPermission: auth.PermissionWrite, IsRoot: false, Acc: auth.Account{Access: who, Role: auth.RoleUser},
		Bucket: "bkt", Object: "dstobj", Action: auth.PutObjectAction,
	})
	if err == nil {
		zzvf.Reach("granted")
	} else {
		zzvf.Reach("denied")
	}
	zzvf.Assert((err == nil) == (putDst && getSrc), "same-bucket-copy-needs-write-on-destination-key-and-read-on-source-key")
}
