package s3api

import (
	"encoding/hex"
	"encoding/json"
	"io"

	"github.com/aws/aws-sdk-go-v2/service/s3"

	"github.com/gofiber/fiber/v2"
	"github.com/versity/versitygw/auth"
	"github.com/versity/versitygw/backend/posix"
	"github.com/versity/versitygw/internal/zzvf"
	"github.com/versity/versitygw/internal/zzvfbe"
	"github.com/versity/versitygw/s3api/controllers"
	"github.com/versity/versitygw/s3api/middlewares"
	"github.com/versity/versitygw/s3err"
	"github.com/versity/versitygw/s3response"
)

// account store model: one known account
type vfIAM struct{}

func (vfIAM) CreateAccount(auth.Account) error                  { return nil }
func (vfIAM) UpdateUserAccount(string, auth.MutableProps) error { return nil }
func (vfIAM) DeleteUserAccount(string) error                    { return nil }
func (vfIAM) ListUserAccounts() ([]auth.Account, error)         { return nil, nil }
func (vfIAM) Shutdown() error                                   { return nil }
func (vfIAM) GetUserAccount(access string) (auth.Account, error) {
	if access == "caller" {
		return auth.Account{Access: "caller", Secret: "sec", Role: auth.RoleUser}, nil
	}
	return auth.Account{}, auth.ErrNoSuchUser
}

// body stream model: delivers the body, then io.EOF
type vfBody struct {
	data []byte
	pos  int
	EOF  bool
}

func (b *vfBody) Read(p []byte) (int, error) {
	if b.pos >= len(b.data) {
		b.EOF = true
		return 0, io.EOF
	}
	n := copy(p, b.data[b.pos:])
	b.pos += n
	return n, nil
}

type vfAuthRoute struct {
	name   string
	method string
	bucket bool
	h      func(c controllers.S3ApiController) fiber.Handler
}

var vfAuthRoutes = []vfAuthRoute{
	{"ListBuckets", "GET", true, func(c controllers.S3ApiController) fiber.Handler { return c.ListBuckets }},
	{"GetActions", "GET", false, func(c controllers.S3ApiController) fiber.Handler { return c.GetActions }},
	{"ListActions", "GET", true, func(c controllers.S3ApiController) fiber.Handler { return c.ListActions }},
	{"PutBucketActions", "PUT", true, func(c controllers.S3ApiController) fiber.Handler { return c.PutBucketActions }},
	{"PutActions", "PUT", false, func(c controllers.S3ApiController) fiber.Handler { return c.PutActions }},
	{"DeleteBucket", "DELETE", true, func(c controllers.S3ApiController) fiber.Handler { return c.DeleteBucket }},
	{"DeleteObjects", "POST", true, func(c controllers.S3ApiController) fiber.Handler { return c.DeleteObjects }},
	{"DeleteActions", "DELETE", false, func(c controllers.S3ApiController) fiber.Handler { return c.DeleteActions }},
	{"HeadBucket", "HEAD", true, func(c controllers.S3ApiController) fiber.Handler { return c.HeadBucket }},
	{"HeadObject", "HEAD", false, func(c controllers.S3ApiController) fiber.Handler { return c.HeadObject }},
	{"CreateActions", "POST", false, func(c controllers.S3ApiController) fiber.Handler { return c.CreateActions }},
}

// backend look-ups that the middleware chain itself makes before the handler (they disclose nothing)
var vfChainLookups = map[string]bool{"GetBucketAcl": true}

// VfAuthChain: C02 – the real authentication middlewares (header and presigned, immediate and deferred verification),
// the MD5 and ACL middlewares and every route handler, with the signature computation replaced by a recording stand-in
// and a backend whose PutObject/UploadPart consume the body stream as the posix backend does.
// Oracle: (i) every mutating backend call happens after a signature verification that succeeded (for the streaming
// calls: before they return successfully) - look-ups the chain and the handlers make for their own decisions disclose
// nothing and may come earlier; (ii) a 2xx answer implies such a verification;
// (iii) a failed verification or missing/unknown credentials end in a 4xx/5xx answer without any successful mutation.
func VfAuthChain() {
	zzvf.Bound("havoc_str", 1)
	zzvf.Bound("havoc_str_fixed", 1)
	zzvf.Bound("havoc_slice", 1)
	rt := vfAuthRoutes[zzvf.Choice("route", len(vfAuthRoutes))]
	ctx := zzvfbe.NewRequest()
	r := zzvfbe.R
	r.Method = rt.method
	trailing := zzvf.Choice("trailing_slash", 2) == 1
	r.Params["bucket"] = "bkt"
	switch {
	case rt.name == "ListBuckets":
		r.Path = "/"
	case rt.bucket:
		r.Path = "/bkt"
	default:
		r.Params["key"] = "obj"
		r.Params["*1"] = ""
		r.Path = "/bkt/obj"
	}
	if trailing && rt.name != "ListBuckets" {
		r.Path += "/"
	}
	// credentials: 0 none, 1 well-formed for an unknown key, 2 well-formed for the known key, 3 presigned query for the known key
	cred := zzvf.Choice("credentials", 4)
	if vfForceNoBody {
		zzvf.Assume(cred == 2 || cred == 3) // well-formed credentials of a known key: the request gets past the immediate checks
	}
	const scope = "/20240506/us-east-1/s3/aws4_request"
	switch cred {
	case 1:
		r.SetHeader("Authorization", "AWS4-HMAC-SHA256 Credential=nobody"+scope+",SignedHeaders=host,Signature=abcd")
	case 2:
		r.SetHeader("Authorization", "AWS4-HMAC-SHA256 Credential=caller"+scope+",SignedHeaders=host,Signature=abcd")
	case 3:
		r.SetQuery("X-Amz-Algorithm", "AWS4-HMAC-SHA256")
		r.SetQuery("X-Amz-Credential", "caller"+scope)
		r.SetQuery("X-Amz-Date", "20240506T070809Z")
		r.SetQuery("X-Amz-Expires", "600")
		r.SetQuery("X-Amz-SignedHeaders", "host")
		r.SetQuery("X-Amz-Signature", "abcd")
	}
	if cred == 1 || cred == 2 {
		r.SetHeader("X-Amz-Date", "20240506T070809Z")
	}
	payload := zzvf.Choice("payload_kind", 3)
	bodyBytes := zzvf.Bytes("body", 1+zzvf.Tier())
	declaredHash := ""
	if payload == 2 {
		if cred != 2 {
			zzvf.Assume(false) // the signed-payload clause concerns header authentication (presigned URLs do not sign the payload)
		}
		// a signed payload: the header carries a hex SHA-256 that must equal the digest of the body actually received
		declaredHash = zzvf.StringN("content_sha256", 64)
		r.SetHeader("X-Amz-Content-Sha256", declaredHash)
	} else if payload == 0 {
		r.SetHeader("X-Amz-Content-Sha256", "UNSIGNED-PAYLOAD")
	} else {
		r.SetHeader("X-Amz-Content-Sha256", "STREAMING-UNSIGNED-PAYLOAD-TRAILER")
		r.SetHeader("X-Amz-Trailer", "x-amz-checksum-crc32")
		r.SetHeader("X-Amz-Decoded-Content-Length", "1")
	}
	body := &vfBody{data: bodyBytes}
	r.Stream = body
	r.Body = bodyBytes
	// fasthttp's contract for a request that carries neither Content-Length nor Transfer-Encoding: it has no body, the
	// body stream is nil and Content-Length reads as 0
	noFraming := vfForceNoBody || zzvf.Choice("no_content_length_and_no_transfer_encoding", 2) == 1
	if noFraming {
		zzvf.Assume(len(bodyBytes) == 0)
		r.Stream = nil
		r.Body = nil
	}
	r.QueryGen = func(key string) (string, bool) {
		if vfQueryFlags[key] {
			return "", zzvf.Bool("q." + key)
		}
		if key == "uploadId" || key == "partNumber" {
			if !zzvf.Bool("q." + key) {
				return "", false
			}
			if key == "partNumber" {
				return "1", true
			}
			return "id1", true
		}
		return "", false
	}
	r.HeaderGen = func(key string) (string, bool) {
		if key == "x-amz-copy-source" && zzvf.Bool("h."+key) {
			return "srcbkt/srcobj", true
		}
		if key == "content-length" {
			if noFraming {
				return "0", true
			}
			if zzvf.Bool("h.content-length") {
				return "2", true
			}
			return "", false
		}
		return "", false
	}
	be := &zzvfbe.Recorder{}
	zzvfbe.Current = be
	zzvfbe.SigChecks = nil
	zzvfbe.ResetChecks()
	acl := auth.ACL{Owner: "caller", Grantees: []auth.Grantee{{Permission: auth.PermissionFullControl, Access: "caller", Type: "CanonicalUser"}}}
	aclBytes, _ := json.Marshal(acl)
	zzvfbe.Hooks["GetBucketAcl"] = func(rec *zzvfbe.Recorder, args []any) (any, error) { return aclBytes, nil }
	zzvfbe.Hooks["GetBucketPolicy"] = func(rec *zzvfbe.Recorder, args []any) (any, error) {
		return nil, s3err.GetAPIError(s3err.ErrNoSuchBucketPolicy)
	}
	// the posix backend reads the whole body and fails the request on a read error; a PUT of a key ending in '/'
	// (directory object) is answered without reading the stream
	zzvfbe.Hooks["PutObject"] = func(rec *zzvfbe.Recorder, args []any) (any, error) {
		in := args[0].(s3response.PutObjectInput)
		k := *in.Key
		if len(k) > 0 && k[len(k)-1] == '/' {
			return s3response.PutObjectOutput{ETag: "dir"}, nil
		}
		if in.Body != nil {
			if _, err := io.ReadAll(in.Body); err != nil {
				return s3response.PutObjectOutput{}, err
			}
		}
		return s3response.PutObjectOutput{ETag: "etag"}, nil
	}
	zzvfbe.Hooks["UploadPart"] = func(rec *zzvfbe.Recorder, args []any) (any, error) {
		in := args[0].(*s3.UploadPartInput)
		if in.Body != nil {
			if _, err := io.ReadAll(in.Body); err != nil {
				return (*s3.UploadPartOutput)(nil), err
			}
		}
		etag := "etag"
		return &s3.UploadPartOutput{ETag: &etag}, nil
	}
	zzvfbe.NoFail = map[string]bool{"GetObjectLockConfiguration": true, "GetObjectRetention": true, "GetObjectLegalHold": true}

	// the chain is the one the real server constructor installs: s3api.New registers the middlewares with app.Use and the
	// routes through the real router; the registrations are recorded by the fiber model and looked up here
	root := middlewares.RootUserConfig{Access: "root", Secret: "rootsec"}
	zzvfbe.Routes = nil
	_, nerr := New(new(fiber.App), be, root, "7070", "us-east-1", vfIAM{}, nil, nil, nil, nil, WithQuiet())
	zzvf.Assert(nerr == nil, "server-constructed")
	pattern := "/:bucket/:key/*"
	switch {
	case rt.name == "ListBuckets":
		pattern = "/"
	case rt.bucket:
		pattern = "/:bucket"
	}
	chain := zzvfbe.ChainFor(rt.method, pattern)
	zzvf.Assert(len(chain) >= 2, "route-is-registered-behind-middlewares")
	if len(chain) == 0 {
		return
	}
	for i, h := range chain {
		before := zzvfbe.W.NextCalls
		_ = h(ctx)
		if i < len(chain)-1 && zzvfbe.W.NextCalls == before {
			break // the middleware answered the request itself
		}
		if i == len(chain)-2 {
			zzvf.Reach("handler-entered")
		}
	}
	zzvf.Reach("answered")
	zzvf.Trace("route=" + rt.name)
	status := zzvfbe.W.Status
	verified := func(upTo int) bool {
		for _, s := range zzvfbe.SigChecks {
			if s.Valid && s.At <= upTo {
				return true
			}
		}
		return false
	}
	anyInvalid := false
	for _, s := range zzvfbe.SigChecks {
		if !s.Valid {
			anyInvalid = true
		}
	}
	mutated := false
	for i, call := range be.Calls {
		if vfChainLookups[call.Method] {
			continue
		}
		streaming := call.Method == "PutObject" || call.Method == "UploadPart"
		okBefore := verified(i)
		if streaming {
			// the verification may run while the call consumes the body: it must have succeeded by the time the call succeeds
			okBefore = verified(i+1) || call.Failed
		}
		if vfMutators[call.Method] && !call.Failed {
			mutated = true
		}
		if !okBefore && vfMutators[call.Method] {
			zzvf.Trace("call=" + call.Method)
			zzvf.Fail("mutation-only-after-verified-signature")
		}
	}
	if status < 300 && rt.name != "" {
		zzvf.Assert(verified(len(be.Calls)+1), "success-answer-implies-verified-signature")
	}
	if payload == 2 {
		sum := zzvf.Sum256(bodyBytes)
		actual := hex.EncodeToString(sum[:])
		if mutated || status < 300 {
			zzvf.Reach("signed-payload-accepted")
			zzvf.Assert(declaredHash == actual, "accepted-request-has-matching-payload-hash")
		}
	}
	if cred == 0 || cred == 1 || anyInvalid {
		zzvf.Assert(status >= 400, "bad-credentials-answered-with-an-error")
		zzvf.Assert(!mutated, "bad-credentials-change-nothing")
	}
}

// VfAuthCrash: C20 – the authentication middlewares on malformed credentials: arbitrary short Authorization and
// X-Amz-Date header values (and the well-formed ones) never panic.
func VfAuthCrash() {
	ctx := zzvfbe.NewRequest()
	r := zzvfbe.R
	r.Method = "GET"
	r.Path = "/bkt"
	n := 4 + 2*zzvf.Tier()
	zzvf.Bound("header_len_max", n)
	const scope = "/20240506/us-east-1/s3/aws4_request"
	switch zzvf.Choice("authorization", 3) {
	case 1:
		r.SetHeader("Authorization", "AWS4-HMAC-SHA256 Credential=caller"+scope+",SignedHeaders=host,Signature=abcd")
	case 2:
		r.SetHeader("Authorization", zzvf.String("authz", n))
	}
	switch zzvf.Choice("date", 3) {
	case 1:
		r.SetHeader("X-Amz-Date", "20240506T070809Z")
	case 2:
		r.SetHeader("X-Amz-Date", zzvf.String("datehdr", n))
	}
	r.SetHeader("X-Amz-Content-Sha256", "UNSIGNED-PAYLOAD")
	be := &zzvfbe.Recorder{}
	zzvfbe.Current = be
	zzvfbe.SigChecks = nil
	root := middlewares.RootUserConfig{Access: "root", Secret: "rootsec"}
	_ = middlewares.VerifyPresignedV4Signature(root, vfIAM{}, nil, nil, "us-east-1", false)(ctx)
	_ = middlewares.VerifyV4Signature(root, vfIAM{}, nil, nil, "us-east-1", false)(ctx)
	zzvf.Reach("answered")
}

// VfDecodeURL: C04 – whatever the raw (percent-encoded) request path, a request that the URL decoder passes on has a
// decoded path without "." or ".." segments (so bucket and key never carry them into the backends).
func VfDecodeURL() {
	n := 5 + 2*zzvf.Tier()
	zzvf.Bound("raw_path_len_max", n)
	ctx := zzvfbe.NewRequest()
	raw := "/" + zzvf.String("rawpath", n)
	zzvfbe.R.Path = raw
	_ = middlewares.DecodeURL(nil, nil)(ctx)
	if zzvfbe.W.NextCalls == 1 {
		zzvf.Reach("passed-on")
		p := zzvfbe.R.Path
		start := 0
		for i := 0; i <= len(p); i++ {
			if i == len(p) || p[i] == '/' {
				seg := p[start:i]
				zzvf.Assert(zzvf.And(seg != ".", seg != ".."), "decoded-path-has-no-dot-segment")
				start = i + 1
			}
		}
	} else {
		zzvf.Reach("refused")
	}
}

// VfPresignCrash: C20 – the presigned-URL authentication middleware on malformed query credentials: one of X-Amz-Credential,
// X-Amz-Date, X-Amz-Expires is absent or holds arbitrary short bytes (the others are well formed); it never panics.
func VfPresignCrash() {
	ctx := zzvfbe.NewRequest()
	r := zzvfbe.R
	r.Method = "GET"
	r.Path = "/bkt"
	r.Locals["region"] = "us-east-1"
	n := 4 + 2*zzvf.Tier()
	zzvf.Bound("query_value_len_max", n)
	const scope = "/20240506/us-east-1/s3/aws4_request"
	hostile := zzvf.Choice("hostile_parameter", 3)
	mode := zzvf.Choice("hostile_shape", 2) // 0 absent, 1 arbitrary bytes
	set := func(idx int, key, good string) {
		switch {
		case idx != hostile:
			r.SetQuery(key, good)
		case mode == 1:
			r.SetQuery(key, zzvf.String("value", n))
		}
	}
	r.SetQuery("X-Amz-Algorithm", "AWS4-HMAC-SHA256")
	set(0, "X-Amz-Credential", "caller"+scope)
	set(1, "X-Amz-Date", "20240506T070809Z")
	set(2, "X-Amz-Expires", "600")
	r.SetQuery("X-Amz-SignedHeaders", "host")
	r.SetQuery("X-Amz-Signature", "abcd")
	be := &zzvfbe.Recorder{}
	zzvfbe.Current = be
	zzvfbe.SigChecks = nil
	root := middlewares.RootUserConfig{Access: "root", Secret: "rootsec"}
	_ = middlewares.VerifyPresignedV4Signature(root, vfIAM{}, nil, nil, "us-east-1", false)(ctx)
	zzvf.Reach("answered")
}

var vfForceNoBody = false

// VfNoBodyStream: C20 – requests that carry neither Content-Length nor Transfer-Encoding (fasthttp then provides no body
// stream) with well-formed credentials of a known key, through the middleware chain the real server constructor installs and
// every route handler over a backend that reads the body the way the posix backend does: nothing panics.
func VfNoBodyStream() {
	vfForceNoBody = true
	VfAuthChain()
}

// VfAuthE2E: C02 end to end on storage – the middleware chain the real server constructor installs and the real PutObject
// route over the real posix backend on the file-system model, with the signature computation as the recording stand-in:
// a PUT (flat or nested key, new or existing) without credentials, for an unknown key, or whose signature verification
// fails leaves the gateway root byte-identical (no file, no directory, no attribute created or changed) and is answered
// with an error.
func VfAuthE2E() {
	be := posix.VfWorldWithBucket()
	zzvfbe.SigChecks = nil
	zzvfbe.ResetChecks()
	root := middlewares.RootUserConfig{Access: "root", Secret: "rootsec"}
	zzvfbe.Routes = nil
	_, nerr := New(new(fiber.App), be, root, "7070", "us-east-1", vfIAM{}, nil, nil, nil, nil, WithQuiet())
	zzvf.Assert(nerr == nil, "server-constructed")
	chain := zzvfbe.ChainFor("PUT", "/:bucket/:key/*")
	if len(chain) == 0 {
		zzvf.Fail("route-registered")
		return
	}
	ctx := zzvfbe.NewRequest()
	r := zzvfbe.R
	r.Method = "PUT"
	r.Locals["region"] = "us-east-1"
	r.Params["bucket"] = "bkt"
	if zzvf.Choice("nested_key", 2) == 1 {
		r.Params["key"] = "photos"
		r.Params["*1"] = "2024/a"
		r.Path = "/bkt/photos/2024/a"
	} else {
		r.Params["key"] = "a"
		r.Params["*1"] = ""
		r.Path = "/bkt/a"
	}
	const scope = "/20240506/us-east-1/s3/aws4_request"
	cred := zzvf.Choice("credentials", 3) // 0 none, 1 unknown key, 2 root
	switch cred {
	case 1:
		r.SetHeader("Authorization", "AWS4-HMAC-SHA256 Credential=nobody"+scope+",SignedHeaders=host,Signature=abcd")
	case 2:
		r.SetHeader("Authorization", "AWS4-HMAC-SHA256 Credential=root"+scope+",SignedHeaders=host,Signature=abcd")
	}
	if cred != 0 {
		r.SetHeader("X-Amz-Date", "20240506T070809Z")
	}
	r.SetHeader("X-Amz-Content-Sha256", "UNSIGNED-PAYLOAD")
	r.SetHeader("Content-Length", "1")
	body := &vfBody{data: []byte("B")}
	r.Stream = body
	r.Body = []byte("B")
	before := posix.VfSnapshotRoot()
	for i, h := range chain {
		n := zzvfbe.W.NextCalls
		_ = h(ctx)
		if i < len(chain)-1 && zzvfbe.W.NextCalls == n {
			break
		}
	}
	zzvf.Reach("answered")
	verified := false
	for _, s := range zzvfbe.SigChecks {
		if s.Valid {
			verified = true
		}
	}
	if !verified {
		zzvf.Reach("unauthenticated")
		zzvf.Assert(zzvfbe.W.Status >= 400, "unauthenticated-put-is-answered-with-an-error")
		after := posix.VfSnapshotRoot()
		if !posix.VfSnapshotsEqual(before, after) {
			zzvf.Trace("storage " + posix.VfSnapshotDiff(before, after))
		}
		zzvf.Assert(posix.VfSnapshotsEqual(before, after), "unauthenticated-put-leaves-the-storage-byte-identical")
	} else if zzvfbe.W.Status < 300 {
		zzvf.Reach("stored")
	}
}
