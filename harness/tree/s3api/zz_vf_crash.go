package s3api

import (
	"github.com/versity/versitygw/internal/zzvf"
	"github.com/versity/versitygw/internal/zzvfbe"
)

// VfCrashRoutes: C20 – no route handler panics, whatever the request: every sub-resource flag, the stated headers, and
// request documents that are arbitrary values of their type including absent (nil) elements and empty lists.
// The engine turns every index, slice, nil dereference, type assertion, division and make() on the way into a check.
func VfCrashRoutes() {
	zzvf.Bound("havoc_str", 1)
	zzvf.Bound("havoc_slice", 1)
	zzvf.Bound("havoc_str_fixed", 1)
	zzvf.Bound("havoc_nil", 1)
	zzvf.Bound("havoc_nil_depth", 3)
	zzvf.Bound("havoc_nil_fields", 3+2*zzvf.Tier())
	zzvf.Bound("havoc_enum_fields", 0)
	vfPolicyModes = 1
	vfCallerFirst = 3
	zzvfbe.ResetChecks()
	rt := vfRoutes[zzvf.Choice("route", len(vfRoutes))]
	zzvf.Trace("route=" + rt.name)
	vfServe(rt, false)
	zzvf.Reach("returned")
}
