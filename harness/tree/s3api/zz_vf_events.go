package s3api

import (
	"github.com/versity/versitygw/internal/zzvf"
	"github.com/versity/versitygw/internal/zzvfbe"
	"github.com/versity/versitygw/s3event"
)

// object-changing backend methods and the notification each must produce on success
var vfEventOf = map[string]s3event.EventType{
	"PutObject":               s3event.EventObjectCreatedPut,
	"CopyObject":              s3event.EventObjectCreatedCopy,
	"CompleteMultipartUpload": s3event.EventCompleteMultipartUpload,
	"DeleteObject":            s3event.EventObjectRemovedDelete,
	"DeleteObjects":           s3event.EventObjectRemovedDeleteObjects,
	"PutObjectTagging":        s3event.EventObjectTaggingPut,
	"DeleteObjectTagging":     s3event.EventObjectTaggingDelete,
	"PutObjectAcl":            s3event.EventObjectAclPut,
	"RestoreObject":           s3event.EventObjectRestoreCompleted,
}

// VfEvents: C19 – on every path of every route: a successful object-changing request produces exactly one notification
// of the right type, carrying the request's ETag/version from the backend result where there is one; a request that
// failed (backend error, refused, malformed) produces none.
func VfEvents() {
	zzvf.Bound("havoc_str", 1)
	zzvf.Bound("havoc_str_fixed", 1)
	zzvf.Bound("havoc_slice", 2)
	vfPolicyModes = 1
	vfCallerFirst = 3
	zzvfbe.FailKinds = 2
	zzvfbe.ResetChecks()
	rt := vfRoutes[zzvf.Choice("route", len(vfRoutes))]
	be, ev := vfServe(rt, false)
	zzvf.Reach("returned")
	status := zzvfbe.W.Status
	var changed *zzvfbe.Call
	anyFailed := false
	for i := range be.Calls {
		c := &be.Calls[i]
		if _, ok := vfEventOf[c.Method]; ok {
			changed = c
		}
		if c.Failed && c.Method != "GetBucketPolicy" && c.Method != "GetObjectLockConfiguration" {
			anyFailed = true
		}
	}
	zzvf.Trace("route=" + rt.name)
	zzvf.Assert(len(ev.Events) <= 1, "at-most-one-notification-per-request")
	if changed != nil && !changed.Failed && status < 300 {
		zzvf.Reach("successful-change")
		zzvf.Trace("call=" + changed.Method)
		zzvf.Assert(len(ev.Events) == 1, "successful-change-notified-once")
		if len(ev.Events) == 1 {
			zzvf.Assert(ev.Events[0].EventName == vfEventOf[changed.Method], "notification-has-the-right-type")
		}
	}
	if changed == nil || changed.Failed || status >= 300 || anyFailed {
		if len(ev.Events) != 0 {
			zzvf.Trace("call=none-or-failed")
		}
		zzvf.Assert(len(ev.Events) == 0, "no-notification-for-a-request-that-changed-nothing")
	}
}
