package s3api

import (
	"bytes"
	"context"
	"io"
	"strconv"

	"github.com/versity/versitygw/auth"
	"github.com/versity/versitygw/backend"
	"github.com/versity/versitygw/backend/posix"
	"github.com/versity/versitygw/internal/zzvf"
	"github.com/versity/versitygw/internal/zzvfbe"
	"github.com/versity/versitygw/s3api/controllers"
	"github.com/versity/versitygw/s3response"
)

// VfGetRangeE2E: C13 end to end – the real GetObject route handler over the real posix backend on the file-system model.
// Object of 0..3 (4) symbolic bytes; Range header absent, "bytes=a-b", "bytes=a-", "bytes=-n" with a, b, n in 0..5, a
// multi-range, another unit and garbage. Oracle (the statement of C13): 206 with exactly the clipped interval and matching
// Content-Range / Content-Length; 416 when the first position lies beyond the end; 200 with the whole object for absent,
// malformed, reversed or unsupported forms. Status, headers and body never disagree.
func VfGetRangeE2E() {
	maxLen := 3 + zzvf.Tier()
	zzvf.Bound("object_len_max", maxLen)
	be, data := posix.VfWorldWithObject(maxLen)
	// the object read is the file object "k" or an explicit directory object "d/" (always empty)
	dirObject := zzvf.Choice("directory_object", 2) == 1
	if dirObject {
		dk, zero := "d/", int64(0)
		_, perr := be.PutObject(context.Background(), s3response.PutObjectInput{Bucket: &[]string{"bkt"}[0], Key: &dk, Body: bytes.NewReader(nil), ContentLength: &zero})
		zzvf.Assert(perr == nil, "setup-directory-object")
		data = nil
	}
	size := len(data)
	c := controllers.New(be, nil, nil, nil, nil, false, false)
	ctx := zzvfbe.NewRequest()
	r := zzvfbe.R
	r.Method = "GET"
	r.Locals["account"] = auth.Account{Access: "root", Role: auth.RoleAdmin}
	r.Locals["isRoot"] = true
	r.Locals["rootAccess"] = "root"
	r.Locals["region"] = "us-east-1"
	r.Locals["parsedAcl"] = auth.ACL{Owner: "root"}
	r.Locals["isPublicBucket"] = false
	r.Params["bucket"] = "bkt"
	r.Params["key"] = "k"
	r.Params["*1"] = ""
	r.Path = "/bkt/k"
	if dirObject {
		r.Params["key"] = "d"
		r.Path = "/bkt/d/"
	}
	form := zzvf.Choice("range_form", 7)
	hdr := ""
	switch form {
	case 0: // no Range header
	case 1:
		hdr = "bytes=" + strconv.Itoa(zzvf.Choice("first", 6)) + "-" + strconv.Itoa(zzvf.Choice("last", 6))
	case 2:
		hdr = "bytes=" + strconv.Itoa(zzvf.Choice("first", 6)) + "-"
	case 3:
		hdr = "bytes=-" + strconv.Itoa(zzvf.Choice("suffix_length", 6)) // suffix form: not supported by the gateway
	case 4:
		hdr = "bytes=0-0,2-2" // multi-range: unsupported form
	case 5:
		hdr = "items=0-1" // other unit
	case 6:
		hdr = "bytes=a-b" // garbage
	}
	// expected (reference classification shared with H13a): 0 grey, 1 whole object (200), 2 unsatisfiable (416), 3 partial
	class, first, last := backend.VfClassifyRange(int64(size), hdr)
	if hdr == "" {
		class = 1
	}
	lo, hi := int(first), int(last)
	if hdr != "" {
		r.SetHeader("Range", hdr)
	}
	zzvf.Trace("Range: " + hdr + " on an object of " + strconv.Itoa(size) + " bytes")
	_ = c.GetActions(ctx)
	w := zzvfbe.W
	zzvf.Reach("responded")
	var body []byte
	if w.StreamSet && w.Stream != nil {
		body, _ = io.ReadAll(w.Stream)
		if w.StreamSize >= 0 && w.StreamSize < len(body) {
			body = body[:w.StreamSize] // the framework sends at most the announced number of bytes
		}
	} else {
		body = w.Body
	}
	cr := w.Headers["Content-Range"]
	grey := class == 0
	switch w.Status {
	case 206:
		zzvf.Assert(class == 3 || grey, "206-only-for-a-satisfiable-range")
		if class == 3 {
			zzvf.Assert(cr == "bytes "+strconv.Itoa(lo)+"-"+strconv.Itoa(hi)+"/"+strconv.Itoa(size), "content-range-describes-the-interval")
			zzvf.Assert(w.StreamSet && w.StreamSize == hi-lo+1, "content-length-describes-the-interval")
			zzvf.Assert(zzvf.BytesEq(body, data[lo:hi+1]), "body-is-the-requested-interval")
		} else {
			zzvf.Assert(cr != "", "206-carries-a-content-range")
		}
	case 200:
		zzvf.Assert(class == 1 || grey, "200-only-for-absent-or-ignored-range")
		zzvf.Assert(cr == "", "no-content-range-on-200")
		zzvf.Assert(zzvf.BytesEq(body, data), "200-body-is-the-whole-object")
	case 416:
		zzvf.Assert(class == 2 || grey, "416-only-when-first-position-beyond-the-end")
	default:
		zzvf.Fail("status-is-200-206-or-416")
	}
}
