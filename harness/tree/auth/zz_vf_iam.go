package auth

import (
	"time"

	"github.com/versity/versitygw/internal/zzvf"
	"github.com/versity/versitygw/internal/zzvfos"
)

// reference account store (what the admin API acknowledged); may reject or fail requests
type vfStore struct {
	accts map[string]Account
	// hook runs at the named point of a store call (a concurrent request scheduled there); nil = none
	hook func(point string)
}

func (s *vfStore) at(point string) {
	if s.hook != nil {
		s.hook(point)
	}
}

func (s *vfStore) CreateAccount(a Account) error {
	if _, ok := s.accts[a.Access]; ok {
		return ErrUserExists
	}
	s.accts[a.Access] = a
	s.at("after-mutation")
	return nil
}
func (s *vfStore) GetUserAccount(access string) (Account, error) {
	s.at("before-read")
	a, ok := s.accts[access]
	defer s.at("after-read")
	if !ok {
		return Account{}, ErrNoSuchUser
	}
	return a, nil
}
func (s *vfStore) UpdateUserAccount(access string, props MutableProps) error {
	a, ok := s.accts[access]
	if !ok {
		return ErrNoSuchUser
	}
	if zzvf.Choice("store_update_fails", 2) == 1 {
		return ErrNoSuchUser // the store refuses / fails: nothing changes
	}
	updateAcc(&a, props)
	s.accts[access] = a
	s.at("after-mutation")
	return nil
}
func (s *vfStore) DeleteUserAccount(access string) error {
	delete(s.accts, access)
	s.at("after-mutation")
	return nil
}
func (s *vfStore) ListUserAccounts() ([]Account, error) { return nil, nil }
func (s *vfStore) Shutdown() error                      { return nil }

// VfIAMCache: C17 – every history of create / update / delete / lookup on one access key through the caching layer, with an
// arbitrary (non-decreasing) clock: after each acknowledged or refused admin call, a lookup returns exactly the account
// the store holds (all five attributes), or "no such user" when it holds none.
func VfIAMCache() {
	zzvf.Bound("symbolic_clock", 1)
	nops := 2 + zzvf.Tier()
	zzvf.Bound("operations_max", nops)
	store := &vfStore{accts: map[string]Account{}}
	c := &IAMCache{service: store, iamcache: &icache{items: map[string]item{}, expire: 60 * time.Second}}
	key := "user1"
	if zzvf.Choice("exists_initially", 2) == 1 {
		store.accts[key] = Account{Access: key, Secret: "s0", Role: RoleUser, UserID: 7, GroupID: 8}
	}
	n := 1 + zzvf.Choice("operations", nops)
	for i := 0; i < n; i++ {
		switch zzvf.Choice("op", 4) {
		case 0:
			a := Account{Access: key, Secret: zzvf.StringN("secret", 1), Role: RoleUserPlus, UserID: zzvf.Int("uid"), GroupID: zzvf.Int("gid")}
			_ = c.CreateAccount(a)
		case 1:
			var props MutableProps
			if zzvf.Choice("set_secret", 2) == 1 {
				s := zzvf.StringN("new_secret", 1)
				props.Secret = &s
			}
			if zzvf.Choice("set_uid", 2) == 1 {
				u := zzvf.Int("new_uid")
				props.UserID = &u
			}
			_ = c.UpdateUserAccount(key, props)
		case 2:
			_ = c.DeleteUserAccount(key)
		case 3:
			// a lookup (may populate the cache)
		}
		got, err := c.GetUserAccount(key)
		want, ok := store.accts[key]
		if !ok {
			zzvf.Assert(err != nil, "deleted-or-unknown-account-is-rejected")
			continue
		}
		zzvf.Reach("lookup-of-existing-account")
		zzvf.Assert(err == nil, "existing-account-is-found")
		if err == nil {
			zzvf.Assert(zzvf.And(got.Access == want.Access, got.Secret == want.Secret, got.Role == want.Role), "lookup-returns-the-current-secret-and-role")
			zzvf.Assert(zzvf.And(got.UserID == want.UserID, got.GroupID == want.GroupID), "lookup-returns-the-current-user-and-group-id")
		}
	}
}

// VfIAMRace: C17 – two concurrent requests on the same access key through one gateway, each a create, update, delete or
// lookup. A lookup has the steps (cache get, store read, cache set), a mutation (store mutation, cache mutation).
// Schedules: the second request runs entirely at a point inside the first one - before its store read, after its store
// read, or after its store mutation - or the two run one after the other; the roles are symmetric, so both nesting
// directions are covered. Store steps and cache steps touch disjoint state and each cache step is atomic under the cache's
// own lock (each store step under the store's), so every linearisation of the steps is equivalent to one of these by
// commuting independent neighbours.
// After both have returned, a further lookup must be answered from the state the store holds (what was acknowledged).
func VfIAMRace() {
	zzvf.Bound("symbolic_clock", 1)
	store := &vfStore{accts: map[string]Account{}}
	c := &IAMCache{service: store, iamcache: &icache{items: map[string]item{}, expire: 60 * time.Second}}
	key := "user1"
	if zzvf.Choice("exists_initially", 2) == 1 {
		store.accts[key] = Account{Access: key, Secret: "s0", Role: RoleUser, UserID: 7, GroupID: 8}
		if zzvf.Choice("looked_up_before", 2) == 1 {
			_, _ = c.GetUserAccount(key) // cached now; the symbolic clock decides whether the entry is still fresh later
		}
	}
	request := func(who string, kind int) {
		switch kind {
		case 0:
			_ = c.CreateAccount(Account{Access: key, Secret: zzvf.StringN(who+"_secret", 1), Role: RoleUserPlus, UserID: zzvf.Int(who + "_uid"), GroupID: 5})
		case 1:
			var props MutableProps
			s := zzvf.StringN(who+"_new_secret", 1)
			props.Secret = &s
			if zzvf.Choice(who+"_set_uid", 2) == 1 {
				u := zzvf.Int(who + "_new_uid")
				props.UserID = &u
			}
			_ = c.UpdateUserAccount(key, props)
		case 2:
			_ = c.DeleteUserAccount(key)
		case 3:
			_, _ = c.GetUserAccount(key)
		}
	}
	names := []string{"create", "update", "delete", "lookup"}
	first := zzvf.Choice("first_request", 4)
	second := zzvf.Choice("second_request", 4)
	zzvf.Trace("first request: " + names[first] + ", second request: " + names[second])
	points := []string{"", "before-read", "after-read", "after-mutation"}
	point := points[zzvf.Choice("schedule", 4)]
	ran := false
	if point == "" {
		request("first", first)
		request("second", second)
		ran = true
	} else {
		store.hook = func(p string) {
			if p == point {
				store.hook = nil
				zzvf.Trace("second request runs inside the first one at its point " + point)
				request("second", second)
				ran = true
			}
		}
		request("first", first)
		store.hook = nil
	}
	if !ran {
		return // the first request never reached that point: nothing interleaved
	}
	// both requests have returned; what does the next request see?
	got, err := c.GetUserAccount(key)
	want, ok := store.accts[key]
	if !ok {
		zzvf.Assert(err != nil, "deleted-account-is-rejected-after-the-acknowledgement")
		return
	}
	zzvf.Reach("later-lookup-of-existing-account")
	zzvf.Assert(err == nil, "existing-account-is-found")
	if err == nil {
		zzvf.Assert(zzvf.And(got.Access == want.Access, got.Secret == want.Secret, got.Role == want.Role), "later-lookup-returns-the-acknowledged-secret-and-role")
		zzvf.Assert(zzvf.And(got.UserID == want.UserID, got.GroupID == want.GroupID), "later-lookup-returns-the-acknowledged-ids")
	}
}

// ---- the file-backed account store (auth/iam_internal.go) on the file-system model

type vfRefResult struct {
	state map[string]Account
	errs  [2]bool
}

// vfRefApply is the specification of one account change on the reference state; it reports whether the call fails.
func vfRefApply(state map[string]Account, kind int, key string, a Account, props MutableProps) bool {
	switch kind {
	case 0:
		if _, ok := state[key]; ok {
			return true
		}
		state[key] = a
	case 1:
		acc, ok := state[key]
		if !ok {
			return true
		}
		updateAcc(&acc, props)
		state[key] = acc
	case 2:
		delete(state, key)
	}
	return false
}

func vfSameAccounts(got []Account, want map[string]Account) bool {
	if len(got) != len(want) {
		return false
	}
	for _, g := range got {
		w, ok := want[g.Access]
		if !ok || g.Secret != w.Secret || g.Role != w.Role || g.UserID != w.UserID || g.GroupID != w.GroupID {
			return false
		}
	}
	return true
}

// VfIAMFile: C17 – two concurrent account changes (create / update / delete, on the same or on two access keys) through one
// gateway with the file-backed account store. The second request runs entirely at a scheduling point of the first one -
// before any of its lock acquisitions or before any of its file-system steps - or after it; a nested request that needs a
// lock the first one holds cannot run there (the schedule does not exist). Afterwards the stored accounts and the two
// outcomes must be those of the two changes applied one after the other in one of the two orders (nothing lost, nothing
// resurrected, file still readable).
func VfIAMFile() {
	zzvfos.New()
	zzvfos.Mkdir("/iam", 0o755)
	s := &IAMServiceInternal{dir: "/iam", rootAcc: Account{Access: "root", Secret: "r", Role: RoleAdmin}}
	zzvf.Assert(s.initIAM() == nil, "setup-init")
	keys := []string{"u1", "u2"}
	init := map[string]Account{}
	if zzvf.Choice("u1_exists_initially", 2) == 1 {
		a := Account{Access: "u1", Secret: "s0", Role: RoleUser, UserID: 7, GroupID: 8}
		zzvf.Assert(s.CreateAccount(a) == nil, "setup-create")
		init["u1"] = a
	}
	var kind [2]int
	var key [2]string
	var acct [2]Account
	var props [2]MutableProps
	names := []string{"create", "update", "delete"}
	for i, who := range []string{"first", "second"} {
		kind[i] = zzvf.Choice(who+"_request", 3)
		key[i] = keys[zzvf.Choice(who+"_key", 2)]
		switch kind[i] {
		case 0:
			acct[i] = Account{Access: key[i], Secret: zzvf.StringN(who+"_secret", 1), Role: RoleUserPlus, UserID: zzvf.Int(who + "_uid"), GroupID: 5}
		case 1:
			sec := zzvf.StringN(who+"_new_secret", 1)
			props[i].Secret = &sec
			if zzvf.Choice(who+"_set_gid", 2) == 1 {
				g := zzvf.Int(who + "_new_gid")
				props[i].GroupID = &g
			}
		}
		zzvf.Trace(who + " request: " + names[kind[i]] + " " + key[i])
	}
	var failed [2]bool
	request := func(i int) {
		var err error
		switch kind[i] {
		case 0:
			err = s.CreateAccount(acct[i])
		case 1:
			err = s.UpdateUserAccount(key[i], props[i])
		case 2:
			err = s.DeleteUserAccount(key[i])
		}
		failed[i] = err != nil
	}
	// scheduling point of the second request: 0 = after the first; k>0 = at the k-th scheduling point (lock acquisition or
	// file-system step) of the first
	at := zzvf.Choice("second_runs_at_point", 12)
	zzvf.Bound("scheduling_points_max", 11)
	ran := false
	if at == 0 {
		request(0)
		request(1)
		ran = true
	} else {
		n := 0
		point := func(what string) {
			n++
			if n == at && !ran {
				ran = true
				zzvf.Trace("second request runs inside the first one before its " + what)
				hook := zzvfos.M.StepHook
				zzvfos.M.StepHook = nil
				zzvf.OnLock(nil)
				request(1)
				zzvfos.M.StepHook = hook
			}
		}
		zzvfos.M.StepHook = func(op, path string) { point(op + " " + path) }
		zzvf.OnLock(func(op string) { point(op) })
		request(0)
		zzvfos.M.StepHook = nil
		zzvf.OnLock(nil)
	}
	if !ran {
		return // the first request has fewer scheduling points
	}
	got, err := s.ListUserAccounts()
	zzvf.Assert(err == nil, "account-file-readable-after-concurrent-changes")
	if err != nil {
		return
	}
	zzvf.Reach("both-requests-returned")
	ok := false
	for order := 0; order < 2; order++ {
		st := map[string]Account{}
		for k, v := range init {
			st[k] = v
		}
		var f [2]bool
		i, j := order, 1-order
		f[i] = vfRefApply(st, kind[i], key[i], acct[i], props[i])
		f[j] = vfRefApply(st, kind[j], key[j], acct[j], props[j])
		if f == failed && vfSameAccounts(got, st) {
			ok = true
		}
	}
	zzvf.Assert(ok, "stored-accounts-and-outcomes-match-one-order-of-the-two-changes")
}
