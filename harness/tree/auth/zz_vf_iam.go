package auth

import (
	"time"

	"github.com/versity/versitygw/internal/zzvf"
)

// reference account store (what the admin API acknowledged); may reject or fail requests
type vfStore struct {
	accts map[string]Account
	// hook runs at the named point of a store call (a concurrent request scheduled there); nil = none
	hook func(point string)
}

func (s *vfStore) at(point string) {
	if s.hook != nil {
		s.hook(point)
	}
}

func (s *vfStore) CreateAccount(a Account) error {
	if _, ok := s.accts[a.Access]; ok {
		return ErrUserExists
	}
	s.accts[a.Access] = a
	s.at("after-mutation")
	return nil
}
func (s *vfStore) GetUserAccount(access string) (Account, error) {
	s.at("before-read")
	a, ok := s.accts[access]
	defer s.at("after-read")
	if !ok {
		return Account{}, ErrNoSuchUser
	}
	return a, nil
}
func (s *vfStore) UpdateUserAccount(access string, props MutableProps) error {
	a, ok := s.accts[access]
	if !ok {
		return ErrNoSuchUser
	}
	if zzvf.Choice("store_update_fails", 2) == 1 {
		return ErrNoSuchUser // the store refuses / fails: nothing changes
	}
	updateAcc(&a, props)
	s.accts[access] = a
	s.at("after-mutation")
	return nil
}
func (s *vfStore) DeleteUserAccount(access string) error {
	delete(s.accts, access)
	s.at("after-mutation")
	return nil
}
func (s *vfStore) ListUserAccounts() ([]Account, error) { return nil, nil }
func (s *vfStore) Shutdown() error                      { return nil }

// VfIAMCache: C17 – every history of create / update / delete / lookup on one access key through the caching layer, with an
// arbitrary (non-decreasing) clock: after each acknowledged or refused admin call, a lookup returns exactly the account
// the store holds (all five attributes), or "no such user" when it holds none.
func VfIAMCache() {
	zzvf.Bound("symbolic_clock", 1)
	nops := 2 + zzvf.Tier()
	zzvf.Bound("operations_max", nops)
	store := &vfStore{accts: map[string]Account{}}
	c := &IAMCache{service: store, iamcache: &icache{items: map[string]item{}, expire: 60 * time.Second}}
	key := "user1"
	if zzvf.Choice("exists_initially", 2) == 1 {
		store.accts[key] = Account{Access: key, Secret: "s0", Role: RoleUser, UserID: 7, GroupID: 8}
	}
	n := 1 + zzvf.Choice("operations", nops)
	for i := 0; i < n; i++ {
		switch zzvf.Choice("op", 4) {
		case 0:
			a := Account{Access: key, Secret: zzvf.StringN("secret", 1), Role: RoleUserPlus, UserID: zzvf.Int("uid"), GroupID: zzvf.Int("gid")}
			_ = c.CreateAccount(a)
		case 1:
			var props MutableProps
			if zzvf.Choice("set_secret", 2) == 1 {
				s := zzvf.StringN("new_secret", 1)
				props.Secret = &s
			}
			if zzvf.Choice("set_uid", 2) == 1 {
				u := zzvf.Int("new_uid")
				props.UserID = &u
			}
			_ = c.UpdateUserAccount(key, props)
		case 2:
			_ = c.DeleteUserAccount(key)
		case 3:
			// a lookup (may populate the cache)
		}
		got, err := c.GetUserAccount(key)
		want, ok := store.accts[key]
		if !ok {
			zzvf.Assert(err != nil, "deleted-or-unknown-account-is-rejected")
			continue
		}
		zzvf.Reach("lookup-of-existing-account")
		zzvf.Assert(err == nil, "existing-account-is-found")
		if err == nil {
			zzvf.Assert(zzvf.And(got.Access == want.Access, got.Secret == want.Secret, got.Role == want.Role), "lookup-returns-the-current-secret-and-role")
			zzvf.Assert(zzvf.And(got.UserID == want.UserID, got.GroupID == want.GroupID), "lookup-returns-the-current-user-and-group-id")
		}
	}
}

// VfIAMRace: C17 – two concurrent requests on the same access key through one gateway, each a create, update, delete or
// lookup. A lookup has the steps (cache get, store read, cache set), a mutation (store mutation, cache mutation).
// Schedules: the second request runs entirely at a point inside the first one - before its store read, after its store
// read, or after its store mutation - or the two run one after the other; the roles are symmetric, so both nesting
// directions are covered. Store steps and cache steps touch disjoint state and each cache step is atomic under the cache's
// own lock (each store step under the store's), so every linearisation of the steps is equivalent to one of these by
// commuting independent neighbours.
// After both have returned, a further lookup must be answered from the state the store holds (what was acknowledged).
func VfIAMRace() {
	zzvf.Bound("symbolic_clock", 1)
	store := &vfStore{accts: map[string]Account{}}
	c := &IAMCache{service: store, iamcache: &icache{items: map[string]item{}, expire: 60 * time.Second}}
	key := "user1"
	if zzvf.Choice("exists_initially", 2) == 1 {
		store.accts[key] = Account{Access: key, Secret: "s0", Role: RoleUser, UserID: 7, GroupID: 8}
		if zzvf.Choice("looked_up_before", 2) == 1 {
			_, _ = c.GetUserAccount(key) // cached now; the symbolic clock decides whether the entry is still fresh later
		}
	}
	request := func(who string, kind int) {
		switch kind {
		case 0:
			_ = c.CreateAccount(Account{Access: key, Secret: zzvf.StringN(who+"_secret", 1), Role: RoleUserPlus, UserID: zzvf.Int(who + "_uid"), GroupID: 5})
		case 1:
			var props MutableProps
			s := zzvf.StringN(who+"_new_secret", 1)
			props.Secret = &s
			if zzvf.Choice(who+"_set_uid", 2) == 1 {
				u := zzvf.Int(who + "_new_uid")
				props.UserID = &u
			}
			_ = c.UpdateUserAccount(key, props)
		case 2:
			_ = c.DeleteUserAccount(key)
		case 3:
			_, _ = c.GetUserAccount(key)
		}
	}
	names := []string{"create", "update", "delete", "lookup"}
	first := zzvf.Choice("first_request", 4)
	second := zzvf.Choice("second_request", 4)
	zzvf.Trace("first request: " + names[first] + ", second request: " + names[second])
	points := []string{"", "before-read", "after-read", "after-mutation"}
	point := points[zzvf.Choice("schedule", 4)]
	ran := false
	if point == "" {
		request("first", first)
		request("second", second)
		ran = true
	} else {
		store.hook = func(p string) {
			if p == point {
				store.hook = nil
				zzvf.Trace("second request runs inside the first one at its point " + point)
				request("second", second)
				ran = true
			}
		}
		request("first", first)
		store.hook = nil
	}
	if !ran {
		return // the first request never reached that point: nothing interleaved
	}
	// both requests have returned; what does the next request see?
	got, err := c.GetUserAccount(key)
	want, ok := store.accts[key]
	if !ok {
		zzvf.Assert(err != nil, "deleted-account-is-rejected-after-the-acknowledgement")
		return
	}
	zzvf.Reach("later-lookup-of-existing-account")
	zzvf.Assert(err == nil, "existing-account-is-found")
	if err == nil {
		zzvf.Assert(zzvf.And(got.Access == want.Access, got.Secret == want.Secret, got.Role == want.Role), "later-lookup-returns-the-acknowledged-secret-and-role")
		zzvf.Assert(zzvf.And(got.UserID == want.UserID, got.GroupID == want.GroupID), "later-lookup-returns-the-acknowledged-ids")
	}
}
