package auth

import (
	"time"

	"github.com/versity/versitygw/internal/zzvf"
)

// reference account store (what the admin API acknowledged); may reject or fail requests
type vfStore struct {
	accts map[string]Account
}

func (s *vfStore) CreateAccount(a Account) error {
	if _, ok := s.accts[a.Access]; ok {
		return ErrUserExists
	}
	s.accts[a.Access] = a
	return nil
}
func (s *vfStore) GetUserAccount(access string) (Account, error) {
	a, ok := s.accts[access]
	if !ok {
		return Account{}, ErrNoSuchUser
	}
	return a, nil
}
func (s *vfStore) UpdateUserAccount(access string, props MutableProps) error {
	a, ok := s.accts[access]
	if !ok {
		return ErrNoSuchUser
	}
	if zzvf.Choice("store_update_fails", 2) == 1 {
		return ErrNoSuchUser // the store refuses / fails: nothing changes
	}
	updateAcc(&a, props)
	s.accts[access] = a
	return nil
}
func (s *vfStore) DeleteUserAccount(access string) error {
	delete(s.accts, access)
	return nil
}
func (s *vfStore) ListUserAccounts() ([]Account, error) { return nil, nil }
func (s *vfStore) Shutdown() error                      { return nil }

// VfIAMCache: C17 – every history of create / update / delete / lookup on one access key through the caching layer, with an
// arbitrary (non-decreasing) clock: after each acknowledged or refused admin call, a lookup returns exactly the account
// the store holds (all five attributes), or "no such user" when it holds none.
func VfIAMCache() {
	zzvf.Bound("symbolic_clock", 1)
	nops := 2 + zzvf.Tier()
	zzvf.Bound("operations_max", nops)
	store := &vfStore{accts: map[string]Account{}}
	c := &IAMCache{service: store, iamcache: &icache{items: map[string]item{}, expire: 60 * time.Second}}
	key := "user1"
	if zzvf.Choice("exists_initially", 2) == 1 {
		store.accts[key] = Account{Access: key, Secret: "s0", Role: RoleUser, UserID: 7, GroupID: 8}
	}
	n := 1 + zzvf.Choice("operations", nops)
	for i := 0; i < n; i++ {
		switch zzvf.Choice("op", 4) {
		case 0:
			a := Account{Access: key, Secret: zzvf.StringN("secret", 1), Role: RoleUserPlus, UserID: zzvf.Int("uid"), GroupID: zzvf.Int("gid")}
			_ = c.CreateAccount(a)
		case 1:
			var props MutableProps
			if zzvf.Choice("set_secret", 2) == 1 {
				s := zzvf.StringN("new_secret", 1)
				props.Secret = &s
			}
			if zzvf.Choice("set_uid", 2) == 1 {
				u := zzvf.Int("new_uid")
				props.UserID = &u
			}
			_ = c.UpdateUserAccount(key, props)
		case 2:
			_ = c.DeleteUserAccount(key)
		case 3:
			// a lookup (may populate the cache)
		}
		got, err := c.GetUserAccount(key)
		want, ok := store.accts[key]
		if !ok {
			zzvf.Assert(err != nil, "deleted-or-unknown-account-is-rejected")
			continue
		}
		zzvf.Reach("lookup-of-existing-account")
		zzvf.Assert(err == nil, "existing-account-is-found")
		if err == nil {
			zzvf.Assert(zzvf.And(got.Access == want.Access, got.Secret == want.Secret, got.Role == want.Role), "lookup-returns-the-current-secret-and-role")
			zzvf.Assert(zzvf.And(got.UserID == want.UserID, got.GroupID == want.GroupID), "lookup-returns-the-current-user-and-group-id")
		}
	}
}
