package auth

import (
	"github.com/versity/versitygw/internal/zzvf"
)

// vfGlobRef is the textbook matcher (`*` any run, `?` exactly one byte) as a dynamic programme,
// written without branching on symbolic data so that it evaluates to one formula.
func vfGlobRef(p, s string) bool {
	m := make([][]bool, len(p)+1)
	for i := range m {
		m[i] = make([]bool, len(s)+1)
	}
	m[len(p)][len(s)] = true
	for i := len(p) - 1; i >= 0; i-- {
		star := p[i] == '*'
		q := p[i] == '?'
		for j := len(s); j >= 0; j-- {
			if j == len(s) {
				m[i][j] = zzvf.And(star, m[i+1][j])
				continue
			}
			m[i][j] = zzvf.Or(
				zzvf.And(star, zzvf.Or(m[i+1][j], m[i][j+1])),
				zzvf.And(!star, zzvf.Or(q, p[i] == s[j]), m[i+1][j+1]))
		}
	}
	return m[0][0]
}

func vfGlobBounds() (int, int) {
	if zzvf.Tier() == 1 {
		return 5, 6
	}
	return 4, 4
}

// VfGlobMatch: Resources.Match agrees with the reference on every pattern and subject within the bound.
func VfGlobMatch() {
	np, ns := vfGlobBounds()
	zzvf.Bound("pattern_len_max", np)
	zzvf.Bound("subject_len_max", ns)
	p := zzvf.String("pattern", np)
	s := zzvf.String("subject", ns)
	got := Resources{}.Match(p, s)
	want := vfGlobRef(p, s)
	if got {
		zzvf.Reach("matched")
	} else {
		zzvf.Reach("not-matched")
	}
	zzvf.Assert(got == want, "glob-equals-reference")
}

func VfGlobWitness() {
	p := zzvf.String("pattern", 2)
	s := zzvf.String("subject", 2)
	_ = Resources{}.Match(p, s)
	zzvf.Fail("witness")
}
