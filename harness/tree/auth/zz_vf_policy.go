package auth

import (
	"encoding/json"

	"github.com/versity/versitygw/internal/zzvf"
)

// ---- reference semantics of the policy language (from the property statement)

func vfPrincipalMatches(p Principals, who string) bool {
	r := false
	for k := range p {
		r = zzvf.Or(r, k == "*", k == who)
	}
	return r
}

// action pattern: exact name, "s3:*", or a prefix ending in '*'
func vfActionMatches(as Actions, act string) bool {
	r := false
	for k := range as {
		pat := string(k)
		m := zzvf.Or(pat == act, pat == "s3:*")
		if len(pat) > 0 && len(pat)-1 <= len(act) {
			m = zzvf.Or(m, zzvf.And(pat[len(pat)-1] == '*', pat[:len(pat)-1] == act[:len(pat)-1]))
		}
		r = zzvf.Or(r, m)
	}
	return r
}

func vfResourceMatches(rs Resources, res string) bool {
	r := false
	for k := range rs {
		r = zzvf.Or(r, vfGlobRef(k, res))
	}
	return r
}

func vfPolicyRef(bp BucketPolicy, who, act, res string) bool {
	allow, deny := false, false
	for _, st := range bp.Statement {
		m := zzvf.And(vfPrincipalMatches(st.Principals, who), vfActionMatches(st.Actions, act), vfResourceMatches(st.Resources, res))
		allow = zzvf.Or(allow, zzvf.And(m, st.Effect == BucketPolicyAccessTypeAllow))
		deny = zzvf.Or(deny, zzvf.And(m, st.Effect == BucketPolicyAccessTypeDeny))
	}
	return zzvf.And(allow, zzvf.Not(deny))
}

// ---- H14b: the deny-overrides fold, with the three leaf matchers summarised by symbolic Booleans
// (the leaves are checked against their own references in VfActionMatch / VfPrincipalMatch / VfGlobMatch)

var vfBitsP, vfBitsA, vfBitsR []bool

func vfIdx(key string) int { return int(key[1] - '0') }

func vfStubContains(p Principals, who string) bool {
	for k := range p {
		return vfBitsP[vfIdx(k)]
	}
	return false
}

func vfStubActionMatch(a Actions, act Action) bool {
	for k := range a {
		return vfBitsA[vfIdx(string(k))]
	}
	return false
}

func vfStubResourceMatch(r Resources, res string) bool {
	for k := range r {
		return vfBitsR[vfIdx(k)]
	}
	return false
}

// VfPolicyFold: for every number of statements up to the bound, every effect and every combination of
// "principal/action/resource matches" per statement, VerifyBucketPolicy allows exactly when some Allow statement
// matches and no Deny statement matches.
func VfPolicyFold() {
	max := 3 + zzvf.Tier()
	zzvf.Bound("statements_max", max)
	n := zzvf.Choice("statements", max+1)
	var bp BucketPolicy
	vfBitsP, vfBitsA, vfBitsR = nil, nil, nil
	allow, deny := false, false
	for i := 0; i < n; i++ {
		var eff BucketPolicyAccessType
		switch zzvf.Choice("effect", 3) {
		case 0:
			eff = BucketPolicyAccessTypeAllow
		case 1:
			eff = BucketPolicyAccessTypeDeny
		default:
			eff = BucketPolicyAccessType("Other")
		}
		mp, ma, mr := zzvf.Bool("principal_matches"), zzvf.Bool("action_matches"), zzvf.Bool("resource_matches")
		vfBitsP, vfBitsA, vfBitsR = append(vfBitsP, mp), append(vfBitsA, ma), append(vfBitsR, mr)
		id := string([]byte{'k', byte('0' + i)})
		bp.Statement = append(bp.Statement, BucketPolicyItem{
			Effect:     eff,
			Principals: Principals{id: struct{}{}},
			Actions:    Actions{Action(id): struct{}{}},
			Resources:  Resources{id: struct{}{}},
		})
		m := zzvf.And(mp, ma, mr)
		if eff == BucketPolicyAccessTypeAllow {
			allow = zzvf.Or(allow, m)
		}
		if eff == BucketPolicyAccessTypeDeny {
			deny = zzvf.Or(deny, m)
		}
	}
	doc, _ := json.Marshal(bp)
	err := VerifyBucketPolicy(doc, "caller", "bkt", "obj", GetObjectAction)
	if err == nil {
		zzvf.Reach("allowed")
	} else {
		zzvf.Reach("denied")
	}
	zzvf.Assert((err == nil) == zzvf.And(allow, zzvf.Not(deny)), "policy-decision-is-allow-and-not-deny")
}

// VfActionMatch: Actions.FindMatch against the statement's matching rule (exact, s3:*, trailing-* prefix).
func VfActionMatch() {
	np := 3 + zzvf.Tier()
	zzvf.Bound("pattern_len_max", np)
	as := Actions{}
	n := 1 + zzvf.Choice("patterns", 2)
	for i := 0; i < n; i++ {
		pat := "s3:" + zzvf.String("pattern", np)
		for k := range as {
			zzvf.Assume(string(k) != pat)
		}
		as[Action(pat)] = struct{}{}
	}
	act := "s3:" + zzvf.String("action", np)
	got := as.FindMatch(Action(act))
	if got {
		zzvf.Reach("matched")
	} else {
		zzvf.Reach("not-matched")
	}
	zzvf.Assert(got == vfActionMatches(as, act), "action-match-equals-reference")
}

// VfPrincipalMatch: Principals.Contains: exact id or "*".
func VfPrincipalMatch() {
	ps := Principals{}
	n := 1 + zzvf.Choice("principals", 2)
	for i := 0; i < n; i++ {
		p := zzvf.String("principal", 2)
		for k := range ps {
			zzvf.Assume(k != p)
		}
		ps[p] = struct{}{}
	}
	who := zzvf.String("caller", 2)
	got := ps.Contains(who)
	zzvf.Reach("checked")
	zzvf.Assert(got == vfPrincipalMatches(ps, who), "principal-match-equals-reference")
}

func VfPolicyWitness() {
	vfBitsP, vfBitsA, vfBitsR = []bool{zzvf.Bool("p")}, []bool{zzvf.Bool("a")}, []bool{zzvf.Bool("r")}
	bp := BucketPolicy{Statement: []BucketPolicyItem{{Effect: BucketPolicyAccessTypeAllow, Principals: Principals{"k0": struct{}{}},
		Actions: Actions{"k0": struct{}{}}, Resources: Resources{"k0": struct{}{}}}}}
	doc, _ := json.Marshal(bp)
	_ = VerifyBucketPolicy(doc, "caller", "bkt", "obj", GetObjectAction)
	zzvf.Fail("witness")
}

// VfPolicyResource: C14 / C03 – the resource string the policy is evaluated on is exactly bucket + "/" + key (the bucket
// alone for bucket-level requests): VerifyBucketPolicy (real code, no stand-ins) on a one-statement Allow policy for
// everybody and every action whose resource pattern is one of a small set, for an arbitrary key of up to 3 (4) bytes
// (including "/", "." sequences, trailing slashes). Oracle: allowed exactly when the pattern globs the exact string
// (Resources.Match itself is checked against the reference glob by H14a).
func VfPolicyResource() {
	n := 3 + zzvf.Tier()
	zzvf.Bound("key_len_max", n)
	patterns := []string{"bkt/*", "bkt/a/*", "bkt/a?", "bkt/a", "bkt", "bkt/*/"}
	pat := patterns[zzvf.Choice("resource_pattern", len(patterns))]
	key := zzvf.String("key", n)
	bp := BucketPolicy{Statement: []BucketPolicyItem{{Effect: BucketPolicyAccessTypeAllow, Principals: Principals{"*": struct{}{}},
		Actions: Actions{AllActions: struct{}{}}, Resources: Resources{pat: struct{}{}}}}}
	doc, _ := json.Marshal(bp)
	err := VerifyBucketPolicy(doc, "caller", "bkt", key, GetObjectAction)
	exact := "bkt"
	if key != "" {
		exact = "bkt/" + key
	}
	want := Resources{}.Match(pat, exact)
	if err == nil {
		zzvf.Reach("allowed")
	} else {
		zzvf.Reach("denied")
	}
	zzvf.Assert((err == nil) == want, "policy-is-evaluated-on-the-exact-resource-string")
}
