package auth

import (
	"strings"

	"github.com/versity/versitygw/internal/zzvf"
)

// VfPolicyValidate: C14 (put-time validation) – BucketPolicyItem.Validate (real code incl. Resources.Validate,
// ContainsObjectPattern/ContainsBucketPattern, Action.IsObjectAction) on statements with one or two resources and one or
// two actions, inserted in either order (Go map iteration order is unspecified, so the verdict must not depend on it).
// Reference: a statement is valid for bucket "bkt" exactly when every resource names the bucket itself or something inside
// it ("bkt" or "bkt/…"), and every action other than s3:* finds a resource of its kind (object actions an object pattern
// with "/", bucket actions a bucket pattern without).
func VfPolicyValidate() {
	bucket := "bkt"
	resCands := []string{"bkt", "bkt/*", "bkt/a?", "bkt2", "bkt2/*", "b", "*", "other/x"}
	actCands := []Action{AllActions, GetObjectAction, PutObjectAction, ListBucketAction, GetBucketPolicyAction}
	nres := 1 + zzvf.Choice("resources_minus_1", 2)
	nact := 1 + zzvf.Choice("actions_minus_1", 2)
	var res []string
	var acts []Action
	for i := 0; i < nres; i++ {
		res = append(res, resCands[zzvf.Choice("resource", len(resCands))])
	}
	for i := 0; i < nact; i++ {
		acts = append(acts, actCands[zzvf.Choice("action", len(actCands))])
	}
	if nres == 2 {
		zzvf.Assume(res[0] != res[1])
	}
	if nact == 2 {
		zzvf.Assume(acts[0] != acts[1])
	}
	item := BucketPolicyItem{Effect: BucketPolicyAccessTypeAllow, Principals: Principals{"*": struct{}{}}, Actions: Actions{}, Resources: Resources{}}
	for _, r := range res {
		item.Resources[r] = struct{}{}
	}
	for _, a := range acts {
		item.Actions[a] = struct{}{}
	}
	zzvf.Trace("resources ", strings.Join(res, ","), " actions ", string(acts[0]), ",", string(acts[len(acts)-1]))
	err := item.Validate(bucket, nil)
	// reference
	inside := true
	hasObj, hasBkt := false, false
	for _, r := range res {
		if !(r == bucket || strings.HasPrefix(r, bucket+"/")) {
			inside = false
		}
		if strings.Contains(r, "/") {
			hasObj = true
		} else {
			hasBkt = true
		}
	}
	kinds := true
	for _, a := range acts {
		if a == AllActions {
			continue
		}
		_, isObj := supportedObjectActionList[a]
		if isObj && !hasObj {
			kinds = false
		}
		if !isObj && !hasBkt {
			kinds = false
		}
	}
	zzvf.Reach("validated")
	if inside && kinds {
		zzvf.Assert(err == nil, "valid-statement-accepted")
	} else if !inside {
		zzvf.Assert(err != nil, "resource-outside-the-bucket-refused")
	} else {
		zzvf.Assert(err != nil, "action-resource-kind-mismatch-refused")
	}
}

// VfPolicyDocument: C14 (put-time validation) – ValidatePolicyDocument on decoded documents: an empty statement list, an
// invalid effect and an unknown principal are refused; a document of valid statements is accepted.
func VfPolicyDocument() {
	n := zzvf.Choice("statements", 3)
	var p BucketPolicy
	allValid := true
	for i := 0; i < n; i++ {
		it := BucketPolicyItem{Effect: BucketPolicyAccessTypeAllow, Principals: Principals{"*": struct{}{}},
			Actions: Actions{GetObjectAction: struct{}{}}, Resources: Resources{"bkt/*": struct{}{}}}
		switch zzvf.Choice("defect", 4) {
		case 1:
			it.Effect = "Permit"
			allValid = false
		case 2:
			it.Principals = Principals{"*": struct{}{}, "alice": struct{}{}}
			allValid = false
		case 3:
			it.Resources = Resources{"bkt": struct{}{}}
			allValid = false
		}
		p.Statement = append(p.Statement, it)
	}
	err := p.Validate("bkt", nil)
	zzvf.Reach("validated")
	if allValid {
		zzvf.Assert(err == nil, "valid-document-accepted")
	} else {
		zzvf.Assert(err != nil, "invalid-statement-refuses-the-document")
	}
}
