package s3event

import (
	"encoding/xml"

	"github.com/aws/aws-sdk-go-v2/service/s3/types"
	"github.com/versity/versitygw/auth"
	"github.com/versity/versitygw/internal/zzvf"
	"github.com/versity/versitygw/internal/zzvfbe"
	"github.com/versity/versitygw/s3response"
)

var vfSent []EventSchema

// vfRecordSend stands for (*Webhook).send: the delivery itself (HTTP) is outside the claim.
func vfRecordSend(w *Webhook, event EventSchema) { vfSent = append(vfSent, event) }

var vfEventNames = []EventType{EventObjectCreatedPut, EventObjectCreatedCopy, EventCompleteMultipartUpload, EventObjectRemovedDelete,
	EventObjectTaggingPut, EventObjectTaggingDelete, EventObjectAclPut, EventObjectRestoreCompleted}

// VfWebhookSingle: one notification per successful single-object request, naming the request's bucket and key and carrying
// the size / ETag / version id it was given.
func VfWebhookSingle() {
	zzvf.Bound("go_inline", 1)
	vfSent = nil
	ctx := zzvfbe.NewRequest()
	key := zzvf.String("key", 3)
	for i := 0; i < len(key); i++ {
		zzvf.Assume(key[i] != 0)
	}
	zzvf.Assume(key != "")
	zzvfbe.R.Path = "/bkt/" + key
	zzvfbe.R.Locals["account"] = auth.Account{Access: "caller"}
	zzvfbe.R.Locals["region"] = "us-east-1"
	etag, ver := zzvf.StringN("etag", 2), zzvf.StringN("version", 2)
	meta := EventMeta{BucketOwner: "owner", EventName: vfEventNames[zzvf.Choice("event", len(vfEventNames))],
		ObjectSize: zzvf.Int64("size"), ObjectETag: &etag, VersionId: &ver}
	w := &Webhook{url: "http://hook"}
	w.SendEvent(ctx, meta)
	zzvf.Reach("sent")
	zzvf.Assert(len(vfSent) == 1, "exactly-one-record")
	if len(vfSent) == 1 && len(vfSent[0].Records) == 1 {
		r := vfSent[0].Records[0]
		zzvf.Assert(r.EventName == meta.EventName, "record-has-event-type")
		zzvf.Assert(r.S3.Bucket.Name == "bkt", "record-names-bucket")
		zzvf.Assert(r.S3.Object.Key == key, "record-names-key")
		zzvf.Assert(r.S3.Object.Size == meta.ObjectSize, "record-has-size")
		zzvf.Assert(zzvf.And(r.S3.Object.ETag != nil, r.S3.Object.VersionId != nil), "record-has-etag-and-version")
		if r.S3.Object.ETag != nil && r.S3.Object.VersionId != nil {
			zzvf.Assert(zzvf.And(*r.S3.Object.ETag == etag, *r.S3.Object.VersionId == ver), "record-etag-and-version-are-the-request's")
		}
	}
}

// VfWebhookBatch: a batch delete fans out into one record per key that was actually deleted.
func VfWebhookBatch() {
	zzvf.Bound("go_inline", 1)
	vfSent = nil
	ctx := zzvfbe.NewRequest()
	zzvfbe.R.Path = "/bkt"
	zzvfbe.R.Locals["account"] = auth.Account{Access: "caller"}
	zzvfbe.R.Locals["region"] = "us-east-1"
	n := 1 + zzvf.Choice("keys", 2)
	var req s3response.DeleteObjects
	deleted := 0
	var keys []string
	for i := 0; i < n; i++ {
		k := zzvf.StringN("key", 1)
		keys = append(keys, k)
		kk := k
		req.Objects = append(req.Objects, types.ObjectIdentifier{Key: &kk})
	}
	// which keys the backend deleted (the others are reported in the result's Error list)
	var ok []bool
	for i := 0; i < n; i++ {
		d := zzvf.Choice("deleted", 2) == 1
		ok = append(ok, d)
		if d {
			deleted++
		}
	}
	zzvfbe.R.Body, _ = xml.Marshal(req)
	w := &Webhook{url: "http://hook"}
	w.SendEvent(ctx, EventMeta{BucketOwner: "owner", EventName: EventObjectRemovedDeleteObjects})
	zzvf.Reach("sent")
	if deleted == n {
		zzvf.Assert(len(vfSent) == n, "one-record-per-deleted-key")
		for i := range vfSent {
			if i < n && len(vfSent[i].Records) == 1 {
				zzvf.Assert(vfSent[i].Records[0].S3.Object.Key == keys[i], "batch-record-names-its-key")
			}
		}
	} else {
		zzvf.Reach("partial-failure")
		zzvf.Assert(len(vfSent) == deleted, "no-record-for-a-key-whose-deletion-failed")
	}
}

// VfEventFilter: exact entry, else the "prefix:*" entry, else false.
func VfEventFilter() {
	ef := EventFilter{}
	all := []EventType{EventObjectCreated, EventObjectCreatedPut, EventObjectRemoved, EventObjectRemovedDelete, EventObjectTagging, EventObjectTaggingPut}
	for _, e := range all {
		switch zzvf.Choice("entry", 3) {
		case 1:
			ef[e] = true
		case 2:
			ef[e] = false
		}
	}
	q := []EventType{EventObjectCreatedPut, EventObjectCreatedCopy, EventObjectRemovedDelete, EventObjectTaggingPut, EventObjectTaggingDelete}[zzvf.Choice("query", 5)]
	got := ef.Filter(q)
	want := false
	if v, ok := ef[q]; ok {
		want = v
	} else {
		wild := map[EventType]EventType{EventObjectCreatedPut: EventObjectCreated, EventObjectCreatedCopy: EventObjectCreated,
			EventObjectRemovedDelete: EventObjectRemoved, EventObjectTaggingPut: EventObjectTagging, EventObjectTaggingDelete: EventObjectTagging}[q]
		if v, ok := ef[wild]; ok {
			want = v
		}
	}
	zzvf.Reach("filtered")
	zzvf.Assert(got == want, "filter-exact-then-wildcard-then-false")
}
