package backend

import (
	"github.com/versity/versitygw/internal/zzvf"
)

// ---- reference model for C13 (written from the property statement, not from the code)

const (
	vfWhole = iota
	vfPartial
	vfUnsat
	vfGrey // the statement leaves it open (sign-prefixed numbers, numbers that do not fit in 63 bits)
)

func vfIsDigits(s string) bool {
	if len(s) == 0 {
		return false
	}
	for i := 0; i < len(s); i++ {
		if s[i] < '0' || s[i] > '9' {
			return false
		}
	}
	return true
}

const vfMaxInt64Str = "9223372036854775807"

// vfParseNum: digits only -> (value, fits). Leading zeros allowed.
func vfParseNum(s string) (v int64, fits bool) {
	// strip leading zeros
	i := 0
	for i < len(s)-1 && s[i] == '0' {
		i++
	}
	t := s[i:]
	if len(t) > len(vfMaxInt64Str) {
		return 0, false
	}
	if len(t) == len(vfMaxInt64Str) && t > vfMaxInt64Str {
		return 0, false
	}
	var u uint64
	for j := 0; j < len(t); j++ {
		u = u*10 + uint64(t[j]-'0')
	}
	return int64(u), true
}

// vfClassify implements the statement of C13 for one Range header.
func vfClassify(size int64, h string) (class int, first, last int64) {
	if len(h) < 6 || h[:6] != "bytes=" {
		return vfWhole, 0, 0
	}
	spec := h[6:]
	dash := -1
	for i := 0; i < len(spec); i++ {
		if spec[i] == '-' {
			dash = i
			break
		}
	}
	if dash < 0 {
		return vfWhole, 0, 0
	}
	a, b := spec[:dash], spec[dash+1:]
	// sign-prefixed numbers are outside the grammar; the statement's "malformed" clause arguably covers them: grey
	if len(a) > 0 && a[0] == '+' && vfIsDigits(a[1:]) {
		return vfGrey, 0, 0
	}
	if len(b) > 0 && b[0] == '+' && vfIsDigits(b[1:]) {
		return vfGrey, 0, 0
	}
	if !vfIsDigits(a) {
		return vfWhole, 0, 0 // suffix form "-n", garbage
	}
	fv, ffits := vfParseNum(a)
	if !ffits {
		return vfGrey, 0, 0 // first position beyond any object; 416 or ignore
	}
	if b != "" && !vfIsDigits(b) {
		// multi-range "a-b,c-d", second dash, garbage: malformed -> whole; if the first position is also
		// beyond the end both clauses of the statement apply
		if fv >= size {
			return vfGrey, 0, 0
		}
		return vfWhole, 0, 0
	}
	if b == "" {
		if fv >= size {
			return vfUnsat, 0, 0
		}
		return vfPartial, fv, size - 1
	}
	lv, lfits := vfParseNum(b)
	if !lfits {
		if fv >= size {
			return vfUnsat, 0, 0
		}
		return vfGrey, 0, 0
	}
	if lv < fv {
		// reversed: "malformed" (whole) – but if first is also beyond the end both clauses apply
		if fv >= size {
			return vfGrey, 0, 0
		}
		return vfWhole, 0, 0
	}
	if fv >= size {
		return vfUnsat, 0, 0
	}
	if lv > size-1 {
		lv = size - 1
	}
	return vfPartial, fv, lv
}

func vfCheckRange(size int64, h string) {
	start, length, valid, err := ParseGetObjectRange(size, h)
	class, first, last := vfClassify(size, h)
	switch class {
	case vfGrey:
		zzvf.Reach("grey")
		// whatever is chosen must be self-consistent
		if err == nil && valid {
			zzvf.Assert(zzvf.And(start >= 0, length >= 1, start <= size-length), "grey-partial-inside-object")
		}
		if err == nil && !valid {
			zzvf.Assert(zzvf.And(start == 0, length == size), "grey-whole-is-whole")
		}
	case vfWhole:
		zzvf.Reach("whole")
		zzvf.Assert(err == nil, "whole-no-error")
		zzvf.Assert(!valid, "whole-not-flagged-partial")
		zzvf.Assert(zzvf.And(start == 0, length == size), "whole-covers-object")
	case vfUnsat:
		zzvf.Reach("unsat")
		zzvf.Assert(err != nil, "unsatisfiable-gives-error")
	case vfPartial:
		zzvf.Reach("partial")
		zzvf.Assert(err == nil, "partial-no-error")
		zzvf.Assert(valid, "partial-flagged")
		zzvf.Assert(start == first, "partial-start")
		zzvf.Assert(length == last-first+1, "partial-length")
		zzvf.Assert(zzvf.And(start >= 0, length >= 1, start <= size-length), "partial-inside-object")
	}
}

func vfDigits(name string, max int) string {
	s := zzvf.String(name, max)
	for i := 0; i < len(s); i++ {
		zzvf.Assume(zzvf.And(s[i] >= '0', s[i] <= '9'))
	}
	return s
}

// Concrete prefixes put a few symbolic digits next to the interesting magnitudes (small, just below 2^63,
// just below 2^64, leading zeros) without creating 19 chained symbolic multiplications.
var vfPrefixes = []string{"", "922337203685477", "0000", "1844674407370955", "99999999999999999"}

func vfNumber(name string, nd, nprefix int) string {
	p := vfPrefixes[zzvf.Choice(name+"$prefix", nprefix)]
	return p + vfDigits(name, nd)
}

// VfRangeStructured: "bytes=" A "-" B with digit strings (numeric semantics, clipping, overflow).
func VfRangeStructured() {
	nd, np := 4, 2
	if zzvf.Tier() == 1 {
		nd, np = 4, 5
	}
	zzvf.Bound("symbolic_digits_max", nd)
	zzvf.Bound("concrete_prefixes", np)
	size := zzvf.Int64("size")
	zzvf.Assume(size >= 0)
	a := vfNumber("first", nd, np)
	b := vfNumber("last", nd, np)
	vfCheckRange(size, "bytes="+a+"-"+b)
}

// VfRangeFree: arbitrary bytes (structure: units, separators, signs, garbage).
func VfRangeFree() {
	n := 5 + zzvf.Tier()
	zzvf.Bound("free_len_max", n)
	size := zzvf.Int64("size")
	zzvf.Assume(size >= 0)
	h := zzvf.String("header", n)
	vfCheckRange(size, h)
}

// VfRangeFreeSpec: "bytes=" followed by arbitrary bytes.
func VfRangeFreeSpec() {
	n := 5 + zzvf.Tier()
	zzvf.Bound("spec_len_max", n)
	size := zzvf.Int64("size")
	zzvf.Assume(size >= 0)
	h := zzvf.String("spec", n)
	vfCheckRange(size, "bytes="+h)
}

// VfRangeWitness must be reported violated (vacuity guard).
func VfRangeWitness() {
	size := zzvf.Int64("size")
	zzvf.Assume(size >= 0)
	h := zzvf.String("spec", 3)
	_, _, _, _ = ParseGetObjectRange(size, "bytes="+h)
	zzvf.Fail("witness")
}

// VfCopySourceRange: C08 – x-amz-copy-source-range "bytes=first-last" (both required by S3; the gateway also takes
// "bytes=first-"): the bytes copied are exactly [first, last] inside the source, anything else is refused.
func VfCopySourceRange() {
	nd, np := 4, 2
	zzvf.Bound("symbolic_digits_max", nd)
	size := zzvf.Int64("size")
	zzvf.Assume(size >= 0)
	a := vfNumber("first", nd, np)
	b := vfNumber("last", nd, np)
	start, length, err := ParseCopySourceRange(size, "bytes="+a+"-"+b)
	zzvf.Assume(a != "")
	fv, ffits := vfParseNum(a)
	if err != nil {
		zzvf.Reach("refused")
		return
	}
	zzvf.Reach("accepted")
	zzvf.Assert(ffits, "accepted-range-has-representable-first")
	zzvf.Assert(start == fv, "copy-range-start")
	zzvf.Assert(zzvf.And(start >= 0, length >= 0, start <= size-length), "copied-bytes-lie-inside-the-source")
	if b == "" {
		zzvf.Assert(length == size-fv, "open-ended-range-copies-to-the-end")
	} else {
		lv, lfits := vfParseNum(b)
		zzvf.Assert(zzvf.And(lfits, length == lv-fv+1), "closed-range-length")
	}
}

// VfClassifyRange exports the reference classification for end-to-end harnesses in other packages:
// class 0 grey (either clause of the statement applies), 1 whole object, 2 unsatisfiable, 3 partial [first,last].
func VfClassifyRange(size int64, h string) (class int, first, last int64) {
	c, f, l := vfClassify(size, h)
	switch c {
	case vfGrey:
		return 0, 0, 0
	case vfWhole:
		return 1, 0, 0
	case vfUnsat:
		return 2, 0, 0
	}
	return 3, f, l
}
