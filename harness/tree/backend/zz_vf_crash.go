package backend

import (
	"github.com/versity/versitygw/internal/zzvf"
)

// VfCrashParsers: C20 – the backend's parsers of client-supplied strings never panic (callers guarantee non-empty copy sources).
func VfCrashParsers() {
	n := 6 + 2*zzvf.Tier()
	zzvf.Bound("input_len_max", n)
	s := zzvf.String("input", n)
	switch zzvf.Choice("parser", 4) {
	case 0:
		if s != "" { // both callers test for the empty header first
			_, _, _, _ = ParseCopySource(s)
		}
	case 1:
		size := zzvf.Int64("size")
		_, _, _ = ParseCopySourceRange(size, s)
	case 2:
		_, _ = ParseObjectTags(s)
	case 3:
		size := zzvf.Int64("size")
		_, _, _, _ = ParseGetObjectRange(size, s)
	}
	zzvf.Reach("returned")
}
