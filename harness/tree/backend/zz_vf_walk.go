package backend

import (
	"context"
	"io"
	"io/fs"
	"time"

	"github.com/versity/versitygw/internal/zzvf"
	"github.com/versity/versitygw/s3response"
)

// ---- in-memory fs.FS (directories list their entries sorted by name, like os.DirFS / os.ReadDir)

type vfNode struct {
	name     string
	dir      bool
	explicit bool // a directory that is itself an object ("key/")
	kids     []*vfNode
}

func (n *vfNode) Name() string               { return n.name }
func (n *vfNode) IsDir() bool                { return n.dir }
func (n *vfNode) Type() fs.FileMode          { return n.Mode().Type() }
func (n *vfNode) Info() (fs.FileInfo, error) { return n, nil }
func (n *vfNode) Size() int64                { return 0 }
func (n *vfNode) ModTime() time.Time         { return time.Time{} }
func (n *vfNode) Sys() any                   { return nil }
func (n *vfNode) Mode() fs.FileMode {
	if n.dir {
		return fs.ModeDir | 0o755
	}
	return 0o644
}

type vfMemFS struct{ root *vfNode }

type vfOpenFile struct {
	n   *vfNode
	off int
}

func (f *vfOpenFile) Stat() (fs.FileInfo, error) { return f.n, nil }
func (f *vfOpenFile) Read(p []byte) (int, error) { return 0, io.EOF }
func (f *vfOpenFile) Close() error               { return nil }
func (f *vfOpenFile) ReadDir(count int) ([]fs.DirEntry, error) {
	if !f.n.dir {
		return nil, &fs.PathError{Op: "readdir", Path: f.n.name, Err: fs.ErrInvalid}
	}
	var out []fs.DirEntry
	for f.off < len(f.n.kids) && (count <= 0 || len(out) < count) {
		out = append(out, f.n.kids[f.off])
		f.off++
	}
	if count > 0 && len(out) == 0 {
		return nil, io.EOF
	}
	return out, nil
}

func (m *vfMemFS) find(name string) *vfNode {
	if name == "." {
		return m.root
	}
	cur := m.root
	start := 0
	for i := 0; i <= len(name); i++ {
		if i == len(name) || name[i] == '/' {
			seg := name[start:i]
			var next *vfNode
			for _, k := range cur.kids {
				if zzvf.StrEq(k.name, seg) {
					next = k
					break
				}
			}
			if next == nil {
				return nil
			}
			cur = next
			start = i + 1
		}
	}
	return cur
}

func (m *vfMemFS) Open(name string) (fs.File, error) {
	if !fs.ValidPath(name) {
		return nil, &fs.PathError{Op: "open", Path: name, Err: fs.ErrInvalid}
	}
	n := m.find(name)
	if n == nil {
		return nil, &fs.PathError{Op: "open", Path: name, Err: fs.ErrNotExist}
	}
	return &vfOpenFile{n: n}, nil
}

// vfInsert adds a child keeping the directory sorted by name (ties are excluded by the caller's Assume).
func vfInsert(dir *vfNode, k *vfNode) {
	pos := len(dir.kids)
	for i, o := range dir.kids {
		if k.name < o.name {
			pos = i
			break
		}
	}
	dir.kids = append(dir.kids, nil)
	copy(dir.kids[pos+1:], dir.kids[pos:])
	dir.kids[pos] = k
}

// vfName: a 1..maxLen byte name, no '/', no NUL (any other byte).
func vfName(tag string, maxLen int) string {
	n := 1 + zzvf.Choice(tag+"$n", maxLen)
	s := zzvf.StringN(tag, n)
	for i := 0; i < len(s); i++ {
		// ASCII (keys are UTF-8; multi-byte sequences are outside the bound), no separator, no NUL
		zzvf.Assume(zzvf.And(s[i] != '/', s[i] != 0, s[i] < 0x80))
	}
	zzvf.Assume(zzvf.And(s != ".", s != ".."))
	return s
}

// vfBuildTree creates a symbolic bucket: shape by case split, names symbolic. Returns the keys (object names).
func vfBuildTree(maxNodes, nameLen int) (*vfMemFS, []string) {
	root := &vfNode{name: ".", dir: true}
	var keys []string
	type slot struct {
		n    *vfNode
		path string
	}
	dirs := []slot{{root, ""}}
	nn := 1 + zzvf.Choice("nodes", maxNodes)
	for i := 0; i < nn; i++ {
		parent := dirs[zzvf.Choice("parent", len(dirs))]
		name := vfName("name", nameLen)
		for _, k := range parent.n.kids {
			zzvf.Assume(k.name != name)
		}
		kind := zzvf.Choice("kind", 3) // 0 file, 1 plain directory, 2 directory object
		node := &vfNode{name: name, dir: kind != 0, explicit: kind == 2}
		vfInsert(parent.n, node)
		p := parent.path + name
		switch kind {
		case 0:
			keys = append(keys, p)
		case 1:
			dirs = append(dirs, slot{node, p + "/"})
		case 2:
			keys = append(keys, p+"/")
			dirs = append(dirs, slot{node, p + "/"})
		}
	}
	// representation invariant of a bucket: a directory that is not itself an object exists only as the parent
	// of something (the gateway prunes empty parents), so plain directories are never empty
	for _, d := range dirs[1:] {
		if !d.n.explicit && len(d.n.kids) == 0 {
			zzvf.Assume(false)
		}
	}
	return &vfMemFS{root: root}, keys
}

// ---- classes of known defects (so that a failure outside them is reported as new)

func vfHasDirObj(n *vfNode, withKids bool) bool {
	for _, k := range n.kids {
		if k.dir {
			if k.explicit && (!withKids || len(k.kids) > 0) {
				return true
			}
			if vfHasDirObj(k, withKids) {
				return true
			}
		}
	}
	return false
}

// vfCpShadow: some entry has the delimiter-less form of a common prefix as a prefix, so that a marker equal to that
// entry makes Walk skip the common prefix ("a" and "a~b" with delimiter "~").
func vfCpShadow(ref []vfEntry, delim string) bool {
	for _, c := range ref {
		if !c.cp {
			continue
		}
		nd := c.name[:len(c.name)-len(delim)]
		for _, e := range ref {
			if (e.cp != c.cp || e.name != c.name) && vfHasPrefix(e.name, nd) {
				return true
			}
		}
	}
	return false
}

// vfClassOf returns the (single) known-defect class a configuration falls into, "" if none.
func vfClassOf(fsys *vfMemFS, ref []vfEntry, delim string, withMarker bool) string {
	if vfLowSibling(fsys.root) {
		return "@low-sibling"
	}
	if delim != "" && delim != "/" && vfHasDirObj(fsys.root, true) {
		return "@dirobj-with-children-nonslash-delim"
	}
	if delim == "/" && vfHasDirObj(fsys.root, true) {
		// same root cause (Walk never emits a non-empty directory as an object when a delimiter is given); with "/" it shows
		// only when the prefix names the directory itself, which needs three nodes / longer prefixes (thorough tier)
		return "@dirobj-with-children-slash-delim"
	}
	return ""
}

func vfGetObj(fsys *vfMemFS) GetObjFunc {
	return func(path string, d fs.DirEntry) (s3response.Object, error) {
		info, _ := d.Info()
		n := info.(*vfNode)
		if n.dir && !n.explicit {
			return s3response.Object{}, ErrSkipObj
		}
		k := path
		return s3response.Object{Key: &k}, nil
	}
}

// ---- reference: the S3 listing rules over a key set

type vfEntry struct {
	name string
	cp   bool
}

func vfHasPrefix(s, p string) bool { return len(s) >= len(p) && s[:len(p)] == p }

func vfIndex(s, sep string) int {
	for i := 0; i+len(sep) <= len(s); i++ {
		if s[i:i+len(sep)] == sep {
			return i
		}
	}
	return -1
}

// vfReference returns the complete listing (objects and common prefixes merged in ascending order).
func vfReference(keys []string, prefix, delim string) []vfEntry {
	var out []vfEntry
	for _, k := range keys {
		if !vfHasPrefix(k, prefix) {
			continue
		}
		e := vfEntry{name: k}
		if delim != "" {
			if i := vfIndex(k[len(prefix):], delim); i >= 0 {
				e = vfEntry{name: k[:len(prefix)+i+len(delim)], cp: true}
			}
		}
		dup := false
		for _, o := range out {
			if o.cp == e.cp && o.name == e.name {
				dup = true
			}
		}
		if !dup {
			out = append(out, e)
		}
	}
	// insertion sort by name
	for i := 1; i < len(out); i++ {
		for j := i; j > 0 && out[j].name < out[j-1].name; j-- {
			out[j], out[j-1] = out[j-1], out[j]
		}
	}
	return out
}

// vfPage flattens a WalkResults page into entries in the order S3 clients see them merged.
func vfPageEntries(r WalkResults) (objs []string, cps []string) {
	for _, o := range r.Objects {
		objs = append(objs, *o.Key)
	}
	for _, c := range r.CommonPrefixes {
		cps = append(cps, *c.Prefix)
	}
	return
}

func vfSortedStrict(a []string) bool {
	for i := 1; i < len(a); i++ {
		if !(a[i-1] < a[i]) {
			return false
		}
	}
	return true
}

func vfContains(a []string, s string) bool {
	for _, x := range a {
		if x == s {
			return true
		}
	}
	return false
}

// vfLowSibling: some directory has a sibling whose name extends the directory's name with a byte below '/'
// (then directory-walk order differs from key order: "a/x" is visited before "a.txt"). Known defect class.
func vfLowSibling(n *vfNode) bool {
	for _, d := range n.kids {
		if !d.dir {
			continue
		}
		for _, s := range n.kids {
			if s != d && len(s.name) > len(d.name) && s.name[:len(d.name)] == d.name && s.name[len(d.name)] < '/' {
				return true
			}
		}
		if vfLowSibling(d) {
			return true
		}
	}
	return false
}

func vfDelimiter() string {
	switch zzvf.Choice("delimiter", 3) {
	case 0:
		return ""
	case 1:
		return "/"
	}
	d := zzvf.StringN("delim", 1)
	zzvf.Assume(d[0] != 0)
	return d
}

func vfWalkBounds() (nodes, nameLen int) {
	if zzvf.Tier() == 1 {
		return 3, 2
	}
	return 2, 2
}

// vfPrefix: a prefix of at most n ASCII bytes. Prefixes whose directory part is not a clean relative path
// (empty, "." or ".." segments, leading '/') are a separate, known class.
func vfPrefix(n int) (string, bool) {
	p := zzvf.String("prefix", n)
	for i := 0; i < len(p); i++ {
		zzvf.Assume(zzvf.And(p[i] != 0, p[i] < 0x80))
	}
	clean := true
	last := -1
	for i := 0; i < len(p); i++ {
		if p[i] == '/' {
			last = i
		}
	}
	if last >= 0 {
		root := p[:last]
		if last == 0 {
			clean = true // Walk uses "." as root for a prefix that starts with its only '/'
		} else {
			clean = fs.ValidPath(root)
		}
	}
	return p, clean
}

// VfWalkUnpaged: one unbounded page equals the reference listing (set and order).
func VfWalkUnpaged() {
	nodes, nameLen := vfWalkBounds()
	zzvf.Bound("nodes_max", nodes)
	zzvf.Bound("name_len_max", nameLen)
	fsys, keys := vfBuildTree(nodes, nameLen)
	prefix, clean := vfPrefix(1 + 2*zzvf.Tier())
	delim := vfDelimiter()
	res, err := Walk(context.Background(), fsys, prefix, delim, "", 1000, vfGetObj(fsys), []string{".sgwtmp"})
	if clean {
		zzvf.Assert(err == nil, "walk-no-error")
	} else {
		zzvf.Assert(err == nil, "walk-no-error-for-unclean-prefix")
	}
	if err != nil {
		return
	}
	ref := vfReference(keys, prefix, delim)
	cls := vfClassOf(fsys, ref, delim, false)
	objs, cps := vfPageEntries(res)
	zzvf.Reach("listed")
	zzvf.Assert(!res.Truncated, "unbounded-page-not-truncated")
	// completeness and exactness as sets
	nobj, ncp := 0, 0
	for _, e := range ref {
		if e.cp {
			ncp++
			zzvf.Assert(vfContains(cps, e.name), "every-common-prefix-listed"+cls)
		} else {
			nobj++
			zzvf.Assert(vfContains(objs, e.name), "every-key-listed"+cls)
		}
	}
	zzvf.Assert(len(objs) == nobj, "no-extra-or-duplicate-keys"+cls)
	zzvf.Assert(len(cps) == ncp, "no-extra-or-duplicate-common-prefixes"+cls)
	zzvf.Assert(vfSortedStrict(objs), "keys-ascending"+cls)
	zzvf.Assert(vfSortedStrict(cps), "common-prefixes-ascending")
}

// VfWalkPaged: following NextMarker with a small max-keys terminates and yields every entry exactly once.
func VfWalkPaged() {
	nodes, nameLen := vfWalkBounds()
	zzvf.Bound("nodes_max", nodes)
	zzvf.Bound("name_len_max", nameLen)
	fsys, keys := vfBuildTree(nodes, nameLen)
	prefix, clean := "", true
	if zzvf.Choice("with_prefix", 2) == 1 {
		prefix, clean = vfPrefix(1 + 2*zzvf.Tier())
	}
	zzvf.Assume(clean)
	delim := vfDelimiter()
	max := int32(1 + zzvf.Choice("max_keys", 2))
	ref := vfReference(keys, prefix, delim)
	suffix := vfClassOf(fsys, ref, delim, true)
	var objs, cps []string
	marker := ""
	pages := 0
	for {
		res, err := Walk(context.Background(), fsys, prefix, delim, marker, max, vfGetObj(fsys), []string{".sgwtmp"})
		zzvf.Assert(err == nil, "walk-no-error")
		if err != nil {
			return
		}
		o, c := vfPageEntries(res)
		zzvf.Assert(len(o)+len(c) <= int(max), "page-size-at-most-max-keys")
		objs = append(objs, o...)
		cps = append(cps, c...)
		pages++
		if !res.Truncated {
			break
		}
		zzvf.Assert(res.NextMarker != "", "truncated-page-has-marker")
		if pages > len(ref)+1 {
			zzvf.Fail("pagination-terminates" + suffix)
			return
		}
		marker = res.NextMarker
	}
	zzvf.Reach("paged")
	nobj, ncp := 0, 0
	for _, e := range ref {
		if e.cp {
			ncp++
			zzvf.Assert(vfContains(cps, e.name), "paged-every-common-prefix-listed"+suffix)
		} else {
			nobj++
			zzvf.Assert(vfContains(objs, e.name), "paged-every-key-listed"+suffix)
		}
	}
	zzvf.Assert(len(objs) == nobj, "paged-each-key-once"+suffix)
	zzvf.Assert(len(cps) == ncp, "paged-each-common-prefix-once"+suffix)
}

// VfWalkMarker: delimiter-less listing from an arbitrary marker returns exactly the keys greater than it.
func VfWalkMarker() {
	nodes, nameLen := vfWalkBounds()
	fsys, keys := vfBuildTree(nodes, nameLen)
	marker := zzvf.String("marker", 3)
	zzvf.Assume(marker != "")
	for i := 0; i < len(marker); i++ {
		zzvf.Assume(zzvf.And(marker[i] != 0, marker[i] < 0x80))
	}
	res, err := Walk(context.Background(), fsys, "", "", marker, 1000, vfGetObj(fsys), []string{".sgwtmp"})
	zzvf.Assert(err == nil, "walk-no-error")
	if err != nil {
		return
	}
	objs, _ := vfPageEntries(res)
	suffix := vfClassOf(fsys, nil, "", true)
	n := 0
	for _, k := range keys {
		if k > marker {
			n++
			zzvf.Assert(vfContains(objs, k), "marker-every-later-key-listed"+suffix)
		}
	}
	zzvf.Reach("listed")
	zzvf.Assert(len(objs) == n, "marker-no-earlier-or-duplicate-keys"+suffix)
}

func VfWalkWitness() {
	fsys, _ := vfBuildTree(2, 1)
	_, _ = Walk(context.Background(), fsys, "", "/", "", 10, vfGetObj(fsys), []string{".sgwtmp"})
	zzvf.Fail("witness")
}
