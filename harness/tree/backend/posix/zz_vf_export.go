package posix

import (
	"bytes"

	"github.com/versity/versitygw/internal/zzvf"
	"github.com/versity/versitygw/s3response"
)

// VfWorldWithObject builds the model file system with bucket "bkt" holding object "k" whose body is returned
// (symbolic bytes, length 0..maxLen) - for end-to-end harnesses living in other packages.
func VfWorldWithObject(maxLen int) (*Posix, []byte) {
	vfWorld()
	p := vfNewPosix(vfConfig{})
	vfMustBucket(p, "bkt")
	body := zzvf.Bytes("object_body", maxLen)
	n := int64(len(body))
	key := "k"
	_, err := p.PutObject(vfCtx(), s3response.PutObjectInput{Bucket: vfStr("bkt"), Key: &key, Body: bytes.NewReader(body), ContentLength: &n})
	zzvf.Assert(err == nil, "setup-object")
	return p, body
}
