package posix

import (
	"bytes"
	"encoding/json"
	"io"
	"time"

	"github.com/aws/aws-sdk-go-v2/service/s3"
	"github.com/aws/aws-sdk-go-v2/service/s3/types"

	"github.com/versity/versitygw/internal/zzvf"
	"github.com/versity/versitygw/internal/zzvfos"
	"github.com/versity/versitygw/s3response"
)

// VfWorldWithObject builds the model file system with bucket "bkt" holding object "k" whose body is returned
// (symbolic bytes, length 0..maxLen) - for end-to-end harnesses living in other packages.
func VfWorldWithObject(maxLen int) (*Posix, []byte) {
	vfWorld()
	p := vfNewPosix(vfConfig{})
	vfMustBucket(p, "bkt")
	body := zzvf.Bytes("object_body", maxLen)
	n := int64(len(body))
	key := "k"
	_, err := p.PutObject(vfCtx(), s3response.PutObjectInput{Bucket: vfStr("bkt"), Key: &key, Body: bytes.NewReader(body), ContentLength: &n})
	zzvf.Assert(err == nil, "setup-object")
	return p, body
}

// VfLockWorld builds a lock-enabled bucket "bkt" (versioning directory configured or not) holding object "k" = "D" under
// the given protection (0 legal hold, 1 COMPLIANCE until far in the future, 2 GOVERNANCE likewise), a second object
// "other" = "X" and a multipart upload for "k" with one stored part. It returns the backend, the version id of "k" ("" in
// an unversioned bucket) and the upload id. history adds later versions on top (see below).
func VfLockWorld(versioning bool, protection, history int) (p *Posix, versionID, uploadID string) {
	vfWorld()
	p = vfNewPosix(vfConfig{versioning: versioning})
	ctx := vfCtxOf("root")
	lockOn := true
	zzvf.Assert(p.CreateBucket(ctx, &s3.CreateBucketInput{Bucket: vfStr("bkt"), ObjectLockEnabledForBucket: &lockOn}, vfACL("root")) == nil, "setup-create-bucket")
	one := int64(1)
	for _, kv := range [][2]string{{"k", "D"}, {"other", "X"}} {
		k := kv[0]
		out, err := p.PutObject(ctx, s3response.PutObjectInput{Bucket: vfStr("bkt"), Key: &k, Body: bytes.NewReader([]byte(kv[1])), ContentLength: &one})
		zzvf.Assert(err == nil, "setup-object")
		if k == "k" {
			versionID = out.VersionID
		}
	}
	switch protection {
	case 0:
		zzvf.Assert(p.PutObjectLegalHold(ctx, "bkt", "k", "", true) == nil, "setup-legal-hold")
	default:
		mode := types.ObjectLockRetentionModeCompliance
		if protection == 2 {
			mode = types.ObjectLockRetentionModeGovernance
		}
		until := time.Now().Add(1000 * time.Hour)
		b, _ := json.Marshal(types.ObjectLockRetention{Mode: mode, RetainUntilDate: &until})
		zzvf.Assert(p.PutObjectRetention(ctx, "bkt", "k", "", false, b) == nil, "setup-retention")
	}
	key := "k"
	// later history on top of the protected version (versioned buckets only): 1 = a newer version, 2 = a newer version and
	// then a delete marker - the protected version is then a noncurrent one
	if versioning && history >= 1 {
		_, err := p.PutObject(ctx, s3response.PutObjectInput{Bucket: vfStr("bkt"), Key: &key, Body: bytes.NewReader([]byte("2")), ContentLength: &one})
		zzvf.Assert(err == nil, "setup-newer-version")
		if history == 2 {
			_, err := p.DeleteObject(ctx, &s3.DeleteObjectInput{Bucket: vfStr("bkt"), Key: &key})
			zzvf.Assert(err == nil, "setup-delete-marker")
		}
	}
	up, err := p.CreateMultipartUpload(ctx, s3response.CreateMultipartUploadInput{Bucket: vfStr("bkt"), Key: &key})
	zzvf.Assert(err == nil, "setup-upload")
	vfStorePart("bkt", "k", up.UploadId, 1, []byte("P"), 0, "e1")
	return p, versionID, up.UploadId
}

// VfReadObject reads the named version of bkt/k ("" = the current object) through a fresh Posix value.
func VfReadObject(versioning bool, versionID string) ([]byte, error) {
	q := vfNewPosix(vfConfig{versioning: versioning})
	key := "k"
	in := &s3.GetObjectInput{Bucket: vfStr("bkt"), Key: &key, Range: vfStr("")}
	if versionID != "" {
		in.VersionId = &versionID
	}
	g, err := q.GetObject(vfCtx(), in)
	if err != nil {
		return nil, err
	}
	return io.ReadAll(g.Body)
}

// VfWorldWithBucket builds the model file system with an empty bucket "bkt".
func VfWorldWithBucket() *Posix {
	vfWorld()
	p := vfNewPosix(vfConfig{})
	zzvf.Assert(p.CreateBucket(vfCtxOf("root"), &s3.CreateBucketInput{Bucket: vfStr("bkt")}, vfACL("root")) == nil, "setup-create-bucket")
	return p
}

// VfSnapshotRoot records the whole gateway root (names, data, attributes) for a later byte-exact comparison.
func VfSnapshotRoot() []vfSnapEntry {
	var all, out []vfSnapEntry
	vfSnapshot("/gw", zzvfos.M.Cwd, &all)
	// an empty bookkeeping directory (".sgwtmp", created on demand and invisible through the API) is no change of any
	// bucket, object or setting; anything left inside it is
	for i, e := range all {
		tmp := e.dir && len(e.path) > len(metaTmpDir) && e.path[len(e.path)-len(metaTmpDir)-1:] == "/"+metaTmpDir
		if tmp && (i+1 == len(all) || len(all[i+1].path) <= len(e.path) || all[i+1].path[:len(e.path)+1] != e.path+"/") {
			continue
		}
		out = append(out, e)
	}
	return out
}

// VfSnapshotsEqual compares two snapshots taken with VfSnapshotRoot.
func VfSnapshotsEqual(a, b []vfSnapEntry) bool { return vfSnapEqual(a, b) }

// VfSnapshotDiff names the first entry in which two snapshots differ ("" if none).
func VfSnapshotDiff(a, b []vfSnapEntry) string {
	for i := 0; i < len(a) || i < len(b); i++ {
		if i >= len(a) {
			rest := ""
			for _, e := range b[i:] {
				rest += " " + e.path
			}
			return "added:" + rest
		}
		if i >= len(b) {
			return "removed: " + a[i].path
		}
		if a[i].path != b[i].path {
			return "at " + a[i].path + " / " + b[i].path
		}
		if !vfSnapEqual(a[i:i+1], b[i:i+1]) {
			return "changed: " + a[i].path
		}
	}
	return ""
}
