package posix

import (
	"bytes"
	"encoding/hex"
	"io"

	"github.com/aws/aws-sdk-go-v2/service/s3"
	"github.com/aws/aws-sdk-go-v2/service/s3/types"
	"github.com/versity/versitygw/internal/zzvf"
	"github.com/versity/versitygw/internal/zzvfos"
	"github.com/versity/versitygw/s3api/utils"
	"github.com/versity/versitygw/s3response"
)

// VfCopyRoundTrip: C01 for copies – posix.CopyObject (real code, incl. the PutObject it delegates to and the in-place branch)
// from a source with symbolic bytes, content type and user metadata to another key, another bucket or onto itself, with
// metadata directive COPY or REPLACE. Read back through a fresh Posix value: the destination holds exactly the source's
// bytes and ETag; content type and user metadata are the source's (COPY) or the request's (REPLACE); the source is unchanged.
func VfCopyRoundTrip() {
	n := 2 + zzvf.Tier()
	zzvf.Bound("body_len_max", n)
	vfWorld()
	zzvfos.M.OTmpfile = zzvf.Choice("otmpfile_supported", 2) == 1
	p := vfNewPosix(vfConfig{})
	vfMustBucket(p, "bkt")
	vfMustBucket(p, "dstbkt")
	key := "k"
	body := zzvf.Bytes("body", n)
	ctype := zzvf.StringN("content_type", 1)
	mval := zzvf.StringN("meta_value", 1)
	clen := int64(len(body))
	_, err := p.PutObject(vfCtx(), s3response.PutObjectInput{Bucket: vfStr("bkt"), Key: &key, Body: bytes.NewReader(body), ContentLength: &clen,
		ContentType: &ctype, Metadata: map[string]string{"owner": mval}})
	zzvf.Assert(err == nil, "setup-source")
	// tags of the source: a plain one and one whose key and value hold characters that are reserved in URLs
	srcTags := map[string]string{"plain": zzvf.StringN("tag_value", 1), "eu west/team": "a b+c=d:e@f"}
	zzvf.Assert(p.PutObjectTagging(vfCtx(), "bkt", key, srcTags) == nil, "setup-source-tags")
	sum := zzvf.SumMD5(body)
	wantETag := "\"" + hex.EncodeToString(sum[:]) + "\""
	dest := zzvf.Choice("destination", 3) // 0 another key, 1 another bucket, 2 the source itself
	dstBucket, dstKey := "bkt", "k2"
	switch dest {
	case 1:
		dstBucket, dstKey = "dstbkt", "k"
	case 2:
		dstKey = "k"
	}
	replace := zzvf.Choice("metadata_directive_replace", 2) == 1
	newType := zzvf.StringN("new_content_type", 1)
	newVal := zzvf.StringN("new_meta_value", 1)
	in := s3response.CopyObjectInput{Bucket: &dstBucket, Key: &dstKey, CopySource: vfStr("bkt/k"), ExpectedBucketOwner: vfStr(""),
		MetadataDirective: types.MetadataDirectiveCopy, TaggingDirective: types.TaggingDirectiveCopy}
	if replace {
		in.MetadataDirective = types.MetadataDirectiveReplace
		in.ContentType = &newType
		in.Metadata = map[string]string{"owner": newVal}
	}
	withChecksum := zzvf.Choice("request_names_checksum_algorithm_sha256", 2) == 1
	if withChecksum {
		in.ChecksumAlgorithm = types.ChecksumAlgorithmSha256
	}
	_, err = p.CopyObject(vfCtx(), in)
	if dest == 2 && !replace {
		zzvf.Assert(err != nil, "copy-onto-itself-without-changes-is-refused")
	} else {
		zzvf.Assert(err == nil, "copy-succeeds")
	}
	q := vfNewPosix(vfConfig{})
	check := func(bucket, k, wantType, wantMeta, what string) {
		g, err := q.GetObject(vfCtx(), &s3.GetObjectInput{Bucket: &bucket, Key: &k, Range: vfStr("")})
		zzvf.Assert(err == nil, what+"-readable")
		if err != nil {
			return
		}
		got, _ := io.ReadAll(g.Body)
		zzvf.Assert(zzvf.BytesEq(got, body), what+"-has-the-source-bytes")
		zzvf.Assert(g.ETag != nil && *g.ETag == wantETag, what+"-has-the-source-etag")
		zzvf.Assert(g.ContentLength != nil && *g.ContentLength == clen, what+"-has-the-source-length")
		zzvf.Assert(g.ContentType != nil && *g.ContentType == wantType, what+"-content-type")
		zzvf.Assert(g.Metadata["owner"] == wantMeta, what+"-user-metadata")
		// tags travel with the object (no tagging directive given: they are copied)
		tags, terr := q.GetObjectTagging(vfCtx(), bucket, k)
		zzvf.Assert(terr == nil, what+"-tags-readable")
		if terr == nil {
			zzvf.Assert(zzvf.And(len(tags) == len(srcTags), tags["plain"] == srcTags["plain"], tags["eu west/team"] == srcTags["eu west/team"]), what+"-has-the-source-tags")
		}
	}
	if err == nil && withChecksum {
		// the checksum the copy was asked to compute is the checksum of the object's bytes
		g, gerr := q.GetObject(vfCtx(), &s3.GetObjectInput{Bucket: &dstBucket, Key: &dstKey, Range: vfStr(""), ChecksumMode: types.ChecksumModeEnabled})
		zzvf.Assert(gerr == nil, "destination-readable-with-checksum")
		if gerr == nil {
			sum := zzvf.Sum256(body)
			zzvf.Assert(g.ChecksumSHA256 != nil && *g.ChecksumSHA256 == utils.Base64SumString(sum[:]), "stored-checksum-is-the-checksum-of-the-bytes")
		}
	}
	if err == nil {
		zzvf.Reach("copied")
		if replace {
			check(dstBucket, dstKey, newType, newVal, "destination")
		} else {
			check(dstBucket, dstKey, ctype, mval, "destination")
		}
	}
	if dest != 2 || err != nil {
		check("bkt", "k", ctype, mval, "source")
	}
}
