package posix

import (
	"bytes"
	"encoding/hex"
	"io"

	"github.com/aws/aws-sdk-go-v2/service/s3"
	"github.com/aws/aws-sdk-go-v2/service/s3/types"
	"github.com/versity/versitygw/internal/zzvf"
	"github.com/versity/versitygw/internal/zzvfos"
	"github.com/versity/versitygw/s3api/utils"
	"github.com/versity/versitygw/s3response"
)

// VfCopyRoundTrip: C01 for copies – posix.CopyObject (real code, incl. the PutObject it delegates to and the in-place branch)
// from a source with symbolic bytes, content type and user metadata to another key, another bucket or onto itself, with
// metadata directive COPY or REPLACE. Read back through a fresh Posix value: the destination holds exactly the source's
// bytes and ETag; content type and user metadata are the source's (COPY) or the request's (REPLACE); the source is unchanged.
func VfCopyRoundTrip() {
	n := 2 + zzvf.Tier()
	zzvf.Bound("body_len_max", n)
	vfWorld()
	zzvfos.M.OTmpfile = zzvf.Choice("otmpfile_supported", 2) == 1
	p := vfNewPosix(vfConfig{})
	vfMustBucket(p, "bkt")
	vfMustBucket(p, "dstbkt")
	key := "k"
	body := zzvf.Bytes("body", n)
	ctype := zzvf.StringN("content_type", 1)
	mval := zzvf.StringN("meta_value", 1)
	clen := int64(len(body))
	_, err := p.PutObject(vfCtx(), s3response.PutObjectInput{Bucket: vfStr("bkt"), Key: &key, Body: bytes.NewReader(body), ContentLength: &clen,
		ContentType: &ctype, Metadata: map[string]string{"owner": mval}})
	zzvf.Assert(err == nil, "setup-source")
	// tags of the source: a plain one and one whose key and value hold characters that are reserved in URLs
	srcTags := map[string]string{"plain": zzvf.StringN("tag_value", 1), "eu west/team": "a b+c=d:e@f"}
	zzvf.Assert(p.PutObjectTagging(vfCtx(), "bkt", key, srcTags) == nil, "setup-source-tags")
	sum := zzvf.SumMD5(body)
	wantETag := "\"" + hex.EncodeToString(sum[:]) + "\""
	dest := zzvf.Choice("destination", 3) // 0 another key, 1 another bucket, 2 the source itself
	dstBucket, dstKey := "bkt", "k2"
	switch dest {
	case 1:
		dstBucket, dstKey = "dstbkt", "k"
	case 2:
		dstKey = "k"
	}
	replace := zzvf.Choice("metadata_directive_replace", 2) == 1
	newType := zzvf.StringN("new_content_type", 1)
	newVal := zzvf.StringN("new_meta_value", 1)
	in := s3response.CopyObjectInput{Bucket: &dstBucket, Key: &dstKey, CopySource: vfStr("bkt/k"), ExpectedBucketOwner: vfStr(""),
		MetadataDirective: types.MetadataDirectiveCopy, TaggingDirective: types.TaggingDirectiveCopy}
	if replace {
		in.MetadataDirective = types.MetadataDirectiveReplace
		in.ContentType = &newType
		in.Metadata = map[string]string{"owner": newVal}
	}
	withChecksum := zzvf.Choice("request_names_checksum_algorithm_sha256", 2) == 1
	if withChecksum {
		in.ChecksumAlgorithm = types.ChecksumAlgorithmSha256
	}
	_, err = p.CopyObject(vfCtx(), in)
	if dest == 2 && !replace {
		zzvf.Assert(err != nil, "copy-onto-itself-without-changes-is-refused")
	} else {
		zzvf.Assert(err == nil, "copy-succeeds")
	}
	q := vfNewPosix(vfConfig{})
	check := func(bucket, k, wantType, wantMeta, what string) {
		g, err := q.GetObject(vfCtx(), &s3.GetObjectInput{Bucket: &bucket, Key: &k, Range: vfStr("")})
		zzvf.Assert(err == nil, what+"-readable")
		if err != nil {
			return
		}
		got, _ := io.ReadAll(g.Body)
		zzvf.Assert(zzvf.BytesEq(got, body), what+"-has-the-source-bytes")
		zzvf.Assert(g.ETag != nil && *g.ETag == wantETag, what+"-has-the-source-etag")
		zzvf.Assert(g.ContentLength != nil && *g.ContentLength == clen, what+"-has-the-source-length")
		zzvf.Assert(g.ContentType != nil && *g.ContentType == wantType, what+"-content-type")
		zzvf.Assert(g.Metadata["owner"] == wantMeta, what+"-user-metadata")
		// tags travel with the object (no tagging directive given: they are copied)
		tags, terr := q.GetObjectTagging(vfCtx(), bucket, k)
		zzvf.Assert(terr == nil, what+"-tags-readable")
		if terr == nil {
			zzvf.Assert(zzvf.And(len(tags) == len(srcTags), tags["plain"] == srcTags["plain"], tags["eu west/team"] == srcTags["eu west/team"]), what+"-has-the-source-tags")
		}
	}
	if err == nil && withChecksum {
		// the checksum the copy was asked to compute is the checksum of the object's bytes
		g, gerr := q.GetObject(vfCtx(), &s3.GetObjectInput{Bucket: &dstBucket, Key: &dstKey, Range: vfStr(""), ChecksumMode: types.ChecksumModeEnabled})
		zzvf.Assert(gerr == nil, "destination-readable-with-checksum")
		if gerr == nil {
			sum := zzvf.Sum256(body)
			zzvf.Assert(g.ChecksumSHA256 != nil && *g.ChecksumSHA256 == utils.Base64SumString(sum[:]), "stored-checksum-is-the-checksum-of-the-bytes")
		}
	}
	if err == nil {
		zzvf.Reach("copied")
		if replace {
			check(dstBucket, dstKey, newType, newVal, "destination")
		} else {
			check(dstBucket, dstKey, ctype, mval, "destination")
		}
	}
	if dest != 2 || err != nil {
		check("bkt", "k", ctype, mval, "source")
	}
}

// VfCopyFromHistory: C09 – CopyObject reads its source through the version history like GET does: in a versioning-enabled
// bucket the key holds V1, optionally V2, optionally a delete marker on top. A copy without version id yields the newest
// version's bytes, or fails when the key reads as missing; a copy of ?versionId=V1 yields V1's bytes whatever came after;
// a copy of the marker's id fails. The history of the source key is unchanged by the copies.
func VfCopyFromHistory() {
	vfWorld()
	p := vfNewPosix(vfConfig{versioning: true})
	vfMustBucket(p, "bkt")
	zzvf.Assert(p.PutBucketVersioning(vfCtx(), "bkt", types.BucketVersioningStatusEnabled) == nil, "setup-enable-versioning")
	key, dst := "k", "d"
	one := int64(1)
	b1, b2 := zzvf.BytesN("first_body", 1), zzvf.BytesN("second_body", 1)
	out, err := p.PutObject(vfCtx(), s3response.PutObjectInput{Bucket: vfStr("bkt"), Key: &key, Body: bytes.NewReader(b1), ContentLength: &one})
	zzvf.Assert(err == nil, "setup-first-version")
	v1 := out.VersionID
	newest, newestID := b1, v1
	if zzvf.Choice("second_version", 2) == 1 {
		out, err = p.PutObject(vfCtx(), s3response.PutObjectInput{Bucket: vfStr("bkt"), Key: &key, Body: bytes.NewReader(b2), ContentLength: &one})
		zzvf.Assert(err == nil, "setup-second-version")
		newest, newestID = b2, out.VersionID
	}
	marker := ""
	if zzvf.Choice("delete_marker_on_top", 2) == 1 {
		d, err := p.DeleteObject(vfCtx(), &s3.DeleteObjectInput{Bucket: vfStr("bkt"), Key: &key})
		zzvf.Assert(err == nil && d.VersionId != nil, "setup-delete-marker")
		if err != nil || d.VersionId == nil {
			return
		}
		marker = *d.VersionId
	}
	readDst := func() (bool, []byte) {
		g, err := p.GetObject(vfCtx(), &s3.GetObjectInput{Bucket: vfStr("bkt"), Key: &dst, Range: vfStr("")})
		if err != nil {
			return false, nil
		}
		b, _ := io.ReadAll(g.Body)
		return true, b
	}
	switch zzvf.Choice("copy_source", 5) {
	case 0: // no version id
		_, err := p.CopyObject(vfCtx(), s3response.CopyObjectInput{Bucket: vfStr("bkt"), Key: &dst, CopySource: vfStr("bkt/k"), ExpectedBucketOwner: vfStr(""), MetadataDirective: types.MetadataDirectiveCopy})
		if marker != "" {
			zzvf.Reach("copy-of-a-deleted-key")
			zzvf.Assert(err != nil, "copy-of-a-key-that-reads-as-missing-fails")
			ok, _ := readDst()
			zzvf.Assert(!ok, "failed-copy-creates-no-object")
		} else {
			zzvf.Assert(err == nil, "copy-of-the-current-version-succeeds")
			ok, b := readDst()
			zzvf.Assert(ok && zzvf.BytesEq(b, newest), "copy-without-id-yields-the-newest-version")
		}
	case 1: // the first version by id
		src := "bkt/k?versionId=" + v1
		_, err := p.CopyObject(vfCtx(), s3response.CopyObjectInput{Bucket: vfStr("bkt"), Key: &dst, CopySource: &src, ExpectedBucketOwner: vfStr(""), MetadataDirective: types.MetadataDirectiveCopy})
		zzvf.Reach("copy-by-version-id")
		zzvf.Assert(err == nil, "copy-of-a-version-by-id-succeeds")
		ok, b := readDst()
		zzvf.Assert(ok && zzvf.BytesEq(b, b1), "copy-by-id-yields-that-version's-bytes")
	case 2: // the newest object version by id
		src := "bkt/k?versionId=" + newestID
		_, err := p.CopyObject(vfCtx(), s3response.CopyObjectInput{Bucket: vfStr("bkt"), Key: &dst, CopySource: &src, ExpectedBucketOwner: vfStr(""), MetadataDirective: types.MetadataDirectiveCopy})
		zzvf.Assert(err == nil, "copy-of-a-version-by-id-succeeds")
		ok, b := readDst()
		zzvf.Assert(ok && zzvf.BytesEq(b, newest), "copy-by-id-yields-that-version's-bytes")
	case 4: // UploadPartCopy reads its source the same way
		up, err := p.CreateMultipartUpload(vfCtx(), s3response.CreateMultipartUploadInput{Bucket: vfStr("bkt"), Key: &dst})
		zzvf.Assert(err == nil, "setup-upload")
		pn := int32(1)
		src := "bkt/k"
		byMarkerID := marker != "" && zzvf.Choice("part_source_is_the_marker_id", 2) == 1
		if byMarkerID {
			src = "bkt/k?versionId=" + marker
		}
		_, err = p.UploadPartCopy(vfCtx(), &s3.UploadPartCopyInput{Bucket: vfStr("bkt"), Key: &dst, UploadId: &up.UploadId, PartNumber: &pn,
			CopySource: &src, CopySourceRange: vfStr(""), ExpectedBucketOwner: vfStr("")})
		pex, pdata, _, _ := vfObjectState(vfPartPath("bkt", dst, up.UploadId, pn))
		if marker != "" {
			zzvf.Reach("part-copy-of-a-deleted-key")
			zzvf.Assert(err != nil, "part-copy-of-a-key-that-reads-as-missing-fails")
			zzvf.Assert(!pex, "failed-part-copy-stores-no-part")
		} else {
			zzvf.Assert(err == nil, "part-copy-of-the-current-version-succeeds")
			zzvf.Assert(pex && zzvf.BytesEq(pdata, newest), "part-copy-without-id-yields-the-newest-version")
		}
	case 3: // the delete marker by id
		if marker == "" {
			return
		}
		src := "bkt/k?versionId=" + marker
		_, err := p.CopyObject(vfCtx(), s3response.CopyObjectInput{Bucket: vfStr("bkt"), Key: &dst, CopySource: &src, ExpectedBucketOwner: vfStr(""), MetadataDirective: types.MetadataDirectiveCopy})
		zzvf.Assert(err != nil, "copy-of-a-delete-marker-fails")
		ok, _ := readDst()
		zzvf.Assert(!ok, "failed-copy-creates-no-object")
	}
	// the source history is what it was
	g, err := p.GetObject(vfCtx(), &s3.GetObjectInput{Bucket: vfStr("bkt"), Key: &key, VersionId: &v1, Range: vfStr("")})
	zzvf.Assert(err == nil, "source-version-still-retrievable")
	if err == nil {
		b, _ := io.ReadAll(g.Body)
		zzvf.Assert(zzvf.BytesEq(b, b1), "source-version-unchanged")
	}
	_, err = p.GetObject(vfCtx(), &s3.GetObjectInput{Bucket: vfStr("bkt"), Key: &key, Range: vfStr("")})
	zzvf.Assert((err != nil) == (marker != ""), "source-key-reads-as-before")
}
