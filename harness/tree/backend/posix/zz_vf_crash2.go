package posix

import (
	"bytes"
	"io"

	"github.com/aws/aws-sdk-go-v2/service/s3"
	"github.com/aws/aws-sdk-go-v2/service/s3/types"
	"github.com/versity/versitygw/internal/zzvf"
	"github.com/versity/versitygw/internal/zzvfos"
	"github.com/versity/versitygw/s3response"
)

// vfCrashRun runs op and kills the process before the chosen file-system step; it reports whether the crash happened.
func vfCrashRun(maxSteps int, op func()) (crashed bool) {
	crashAt := zzvf.Choice("crash_at_step", maxSteps)
	zzvf.Bound("crash_steps_max", maxSteps)
	start := zzvfos.M.Steps
	zzvfos.M.StepHook = func(opname, path string) {
		if zzvfos.M.Steps-start == crashAt+1 {
			zzvf.Trace("crash before " + opname + " " + path)
			zzvf.Abort()
		}
	}
	crashed = zzvf.CatchAbort(op)
	zzvfos.M.StepHook = nil
	if !crashed {
		zzvf.Assume(zzvfos.M.Steps-start <= crashAt) // crash points beyond the last step: nothing to explore
	}
	return crashed
}

// VfCrashCopy: C11 – CopyObject (to a new or an existing destination key) killed before any of its file-system steps; after
// a restart the destination is absent / its complete previous object / the complete copy, never a mixture, and the source
// is intact; an acknowledged copy persists.
func VfCrashCopy() {
	vfWorld()
	zzvfos.M.OTmpfile = zzvf.Choice("otmpfile_supported", 2) == 1
	p := vfNewPosix(vfConfig{})
	vfMustBucket(p, "bkt")
	one := int64(1)
	src, key := "src", "k"
	srcBody := zzvf.BytesN("source_body", 1)
	_, err := p.PutObject(vfCtx(), s3response.PutObjectInput{Bucket: vfStr("bkt"), Key: &src, Body: bytes.NewReader(srcBody), ContentLength: &one})
	zzvf.Assert(err == nil, "setup-source")
	existing := zzvf.Choice("destination_exists", 2) == 1
	oldBody := []byte("O")
	if existing {
		_, err := p.PutObject(vfCtx(), s3response.PutObjectInput{Bucket: vfStr("bkt"), Key: &key, Body: bytes.NewReader(oldBody), ContentLength: &one})
		zzvf.Assert(err == nil, "setup-old-object")
	}
	var opErr error
	crashed := vfCrashRun(60, func() {
		_, opErr = p.CopyObject(vfCtx(), s3response.CopyObjectInput{Bucket: vfStr("bkt"), Key: &key, CopySource: vfStr("bkt/src"), ExpectedBucketOwner: vfStr(""),
			MetadataDirective: types.MetadataDirectiveCopy})
	})
	if crashed {
		zzvf.Reach("crashed")
	} else {
		zzvf.Reach("completed-without-crash")
		zzvf.Assert(opErr == nil, "copy-succeeds")
	}
	q := vfNewPosix(vfConfig{})
	present, data, etag, coherent := vfKeyState(q, key)
	zzvf.Assert(coherent, "length-matches-data-after-crash")
	isOld := zzvf.And(present, zzvf.BytesEq(data, oldBody), etag == vfQuotedMD5(oldBody))
	isNew := zzvf.And(present, zzvf.BytesEq(data, srcBody), etag == vfQuotedMD5(srcBody))
	if existing {
		zzvf.Assert(zzvf.Or(isOld, isNew), "copy-leaves-complete-old-or-complete-new-object")
	} else {
		zzvf.Assert(zzvf.Or(!present, isNew), "copy-destination-is-absent-or-complete")
	}
	if !crashed {
		zzvf.Assert(isNew, "acknowledged-copy-persists")
	}
	sp, sd, se, sc := vfKeyState(q, src)
	zzvf.Assert(zzvf.And(sp, sc, zzvf.BytesEq(sd, srcBody), se == vfQuotedMD5(srcBody)), "source-intact-after-crash")
}

// VfCrashVersioned: C11 in a bucket with versioning enabled – an overwriting PutObject or a DeleteObject killed before any
// of its file-system steps. After a restart the current object is complete (old or new, or absent after a delete) and the
// previous content is still retrievable: either it is still current or it is a listed, readable version - an acknowledged
// object never vanishes.
func VfCrashVersioned() {
	vfWorld()
	zzvfos.M.OTmpfile = zzvf.Choice("otmpfile_supported", 2) == 1
	cfg := vfConfig{versioning: true}
	p := vfNewPosix(cfg)
	vfMustBucket(p, "bkt")
	zzvf.Assert(p.PutBucketVersioning(vfCtx(), "bkt", types.BucketVersioningStatusEnabled) == nil, "setup-enable-versioning")
	key := "k"
	one := int64(1)
	oldBody := []byte("O")
	out, err := p.PutObject(vfCtx(), s3response.PutObjectInput{Bucket: vfStr("bkt"), Key: &key, Body: bytes.NewReader(oldBody), ContentLength: &one})
	zzvf.Assert(err == nil, "setup-old-object")
	oldID := out.VersionID
	isDelete := zzvf.Choice("operation_is_delete", 2) == 1
	newBody := zzvf.BytesN("new_body", 1)
	var opErr error
	crashed := vfCrashRun(80, func() {
		if isDelete {
			_, opErr = p.DeleteObject(vfCtx(), &s3.DeleteObjectInput{Bucket: vfStr("bkt"), Key: &key})
		} else {
			_, opErr = p.PutObject(vfCtx(), s3response.PutObjectInput{Bucket: vfStr("bkt"), Key: &key, Body: bytes.NewReader(newBody), ContentLength: &one})
		}
	})
	if crashed {
		zzvf.Reach("crashed")
	} else {
		zzvf.Reach("completed-without-crash")
		zzvf.Assert(opErr == nil, "operation-succeeds")
	}
	q := vfNewPosix(cfg)
	present, data, etag, coherent := vfKeyState(q, key)
	zzvf.Assert(coherent, "length-matches-data-after-crash")
	isOld := zzvf.And(present, zzvf.BytesEq(data, oldBody), etag == vfQuotedMD5(oldBody))
	isNew := zzvf.And(present, zzvf.BytesEq(data, newBody), etag == vfQuotedMD5(newBody))
	if isDelete {
		zzvf.Assert(zzvf.Or(!present, isOld), "delete-leaves-complete-object-or-nothing")
	} else {
		zzvf.Assert(zzvf.Or(isOld, isNew), "overwrite-leaves-complete-old-or-complete-new-object")
		if !crashed {
			zzvf.Assert(isNew, "acknowledged-upload-persists")
		}
	}
	// the previous content is still there under its version id
	g, gerr := q.GetObject(vfCtx(), &s3.GetObjectInput{Bucket: vfStr("bkt"), Key: &key, VersionId: &oldID, Range: vfStr("")})
	zzvf.Assert(gerr == nil, "previous-version-retrievable-by-id-after-crash")
	if gerr == nil {
		b, _ := io.ReadAll(g.Body)
		zzvf.Assert(zzvf.BytesEq(b, oldBody), "previous-version-content-intact-after-crash")
	}
}

// VfInterleaveHead: C05 for HEAD – an overwriting PutObject (body of 0..2 symbolic bytes) or a DeleteObject runs entirely at
// one file-system step of a HeadObject on the same key. A successful HEAD reports the length and ETag of one write (the old
// object or the new one), never the length of one with the ETag of the other; an overwritten key never reads as missing.
func VfInterleaveHead() {
	vfWorld()
	zzvfos.M.OTmpfile = zzvf.Choice("otmpfile_supported", 2) == 1
	p := vfNewPosix(vfConfig{})
	q := vfNewPosix(vfConfig{})
	vfMustBucket(p, "bkt")
	key := "k"
	one := int64(1)
	oldBody := []byte("O")
	_, err := p.PutObject(vfCtx(), s3response.PutObjectInput{Bucket: vfStr("bkt"), Key: &key, Body: bytes.NewReader(oldBody), ContentLength: &one})
	zzvf.Assert(err == nil, "setup-old-object")
	newBody := zzvf.Bytes("new_body", 2)
	newLen := int64(len(newBody))
	isDelete := zzvf.Choice("writer_is_delete", 2) == 1
	var wErr error
	var h *s3.HeadObjectOutput
	var hErr error
	fired := vfNestAt(40, func() {
		if isDelete {
			_, wErr = q.DeleteObject(vfCtx(), &s3.DeleteObjectInput{Bucket: vfStr("bkt"), Key: &key})
		} else {
			_, wErr = q.PutObject(vfCtx(), s3response.PutObjectInput{Bucket: vfStr("bkt"), Key: &key, Body: bytes.NewReader(newBody), ContentLength: &newLen})
		}
	}, func() { h, hErr = p.HeadObject(vfCtx(), &s3.HeadObjectInput{Bucket: vfStr("bkt"), Key: &key}) })
	zzvf.Assume(fired)
	zzvf.Reach("interleaved")
	zzvf.Assert(wErr == nil, "writer-succeeds")
	if hErr != nil {
		zzvf.Assert(isDelete, "overwritten-key-never-reads-as-missing")
		return
	}
	zzvf.Assert(h.ETag != nil && h.ContentLength != nil, "head-has-etag-and-length")
	if h.ETag == nil || h.ContentLength == nil {
		return
	}
	isOld := zzvf.And(*h.ETag == vfQuotedMD5(oldBody), *h.ContentLength == 1)
	isNew := zzvf.And(*h.ETag == vfQuotedMD5(newBody), *h.ContentLength == newLen)
	if isDelete {
		zzvf.Assert(isOld, "head-describes-one-complete-write")
	} else {
		zzvf.Assert(zzvf.Or(isOld, isNew), "head-describes-one-complete-write")
	}
}

// vfNestAt runs outer and, before its chosen file-system step, inner (once); it reports whether inner ran.
func vfNestAt(maxSteps int, inner, outer func()) bool {
	at := zzvf.Choice("at_step", maxSteps)
	zzvf.Bound("steps_max", maxSteps)
	start := zzvfos.M.Steps
	fired := false
	zzvfos.M.StepHook = func(opname, path string) {
		if !fired && zzvfos.M.Steps-start == at+1 {
			fired = true
			zzvfos.M.StepHook = nil
			zzvf.Trace("other operation runs before " + opname + " " + path)
			inner()
		}
	}
	outer()
	zzvfos.M.StepHook = nil
	return fired
}
