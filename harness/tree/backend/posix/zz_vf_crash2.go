package posix

import (
	"bytes"
	"encoding/hex"
	"io"

	"github.com/aws/aws-sdk-go-v2/service/s3"
	"github.com/aws/aws-sdk-go-v2/service/s3/types"
	"github.com/versity/versitygw/internal/zzvf"
	"github.com/versity/versitygw/internal/zzvfos"
	"github.com/versity/versitygw/s3response"
)

// vfCrashRun runs op and kills the process before the chosen file-system step; it reports whether the crash happened.
func vfCrashRun(maxSteps int, op func()) (crashed bool) {
	crashAt := zzvf.Choice("crash_at_step", maxSteps)
	zzvf.Bound("crash_steps_max", maxSteps)
	start := zzvfos.M.Steps
	zzvfos.M.StepHook = func(opname, path string) {
		if zzvfos.M.Steps-start == crashAt+1 {
			zzvf.Trace("crash before " + opname + " " + path)
			zzvf.Abort()
		}
	}
	crashed = zzvf.CatchAbort(op)
	zzvfos.M.StepHook = nil
	if !crashed {
		zzvf.Assume(zzvfos.M.Steps-start <= crashAt) // crash points beyond the last step: nothing to explore
	}
	return crashed
}

// VfCrashCopy: C11 – CopyObject (to a new or an existing destination key) killed before any of its file-system steps; after
// a restart the destination is absent / its complete previous object / the complete copy, never a mixture, and the source
// is intact; an acknowledged copy persists.
func VfCrashCopy() {
	vfWorld()
	zzvfos.M.OTmpfile = zzvf.Choice("otmpfile_supported", 2) == 1
	p := vfNewPosix(vfConfig{})
	vfMustBucket(p, "bkt")
	one := int64(1)
	src, key := "src", "k"
	srcBody := zzvf.BytesN("source_body", 1)
	_, err := p.PutObject(vfCtx(), s3response.PutObjectInput{Bucket: vfStr("bkt"), Key: &src, Body: bytes.NewReader(srcBody), ContentLength: &one})
	zzvf.Assert(err == nil, "setup-source")
	existing := zzvf.Choice("destination_exists", 2) == 1
	oldBody := []byte("O")
	if existing {
		_, err := p.PutObject(vfCtx(), s3response.PutObjectInput{Bucket: vfStr("bkt"), Key: &key, Body: bytes.NewReader(oldBody), ContentLength: &one})
		zzvf.Assert(err == nil, "setup-old-object")
	}
	var opErr error
	crashed := vfCrashRun(60, func() {
		_, opErr = p.CopyObject(vfCtx(), s3response.CopyObjectInput{Bucket: vfStr("bkt"), Key: &key, CopySource: vfStr("bkt/src"), ExpectedBucketOwner: vfStr(""),
			MetadataDirective: types.MetadataDirectiveCopy})
	})
	if crashed {
		zzvf.Reach("crashed")
	} else {
		zzvf.Reach("completed-without-crash")
		zzvf.Assert(opErr == nil, "copy-succeeds")
	}
	q := vfNewPosix(vfConfig{})
	present, data, etag, coherent := vfKeyState(q, key)
	zzvf.Assert(coherent, "length-matches-data-after-crash")
	isOld := zzvf.And(present, zzvf.BytesEq(data, oldBody), etag == vfQuotedMD5(oldBody))
	isNew := zzvf.And(present, zzvf.BytesEq(data, srcBody), etag == vfQuotedMD5(srcBody))
	if existing {
		zzvf.Assert(zzvf.Or(isOld, isNew), "copy-leaves-complete-old-or-complete-new-object")
	} else {
		zzvf.Assert(zzvf.Or(!present, isNew), "copy-destination-is-absent-or-complete")
	}
	if !crashed {
		zzvf.Assert(isNew, "acknowledged-copy-persists")
	}
	sp, sd, se, sc := vfKeyState(q, src)
	zzvf.Assert(zzvf.And(sp, sc, zzvf.BytesEq(sd, srcBody), se == vfQuotedMD5(srcBody)), "source-intact-after-crash")
}

// VfCrashVersioned: C11 in a bucket with versioning enabled – an overwriting PutObject or a DeleteObject killed before any
// of its file-system steps. After a restart the current object is complete (old or new, or absent after a delete) and the
// previous content is still retrievable: either it is still current or it is a listed, readable version - an acknowledged
// object never vanishes.
func VfCrashVersioned() {
	vfWorld()
	zzvfos.M.OTmpfile = zzvf.Choice("otmpfile_supported", 2) == 1
	cfg := vfConfig{versioning: true}
	p := vfNewPosix(cfg)
	vfMustBucket(p, "bkt")
	zzvf.Assert(p.PutBucketVersioning(vfCtx(), "bkt", types.BucketVersioningStatusEnabled) == nil, "setup-enable-versioning")
	key := "k"
	one := int64(1)
	oldBody := []byte("O")
	out, err := p.PutObject(vfCtx(), s3response.PutObjectInput{Bucket: vfStr("bkt"), Key: &key, Body: bytes.NewReader(oldBody), ContentLength: &one})
	zzvf.Assert(err == nil, "setup-old-object")
	oldID := out.VersionID
	isDelete := zzvf.Choice("operation_is_delete", 2) == 1
	newBody := zzvf.BytesN("new_body", 1)
	var opErr error
	crashed := vfCrashRun(80, func() {
		if isDelete {
			_, opErr = p.DeleteObject(vfCtx(), &s3.DeleteObjectInput{Bucket: vfStr("bkt"), Key: &key})
		} else {
			_, opErr = p.PutObject(vfCtx(), s3response.PutObjectInput{Bucket: vfStr("bkt"), Key: &key, Body: bytes.NewReader(newBody), ContentLength: &one})
		}
	})
	if crashed {
		zzvf.Reach("crashed")
	} else {
		zzvf.Reach("completed-without-crash")
		zzvf.Assert(opErr == nil, "operation-succeeds")
	}
	q := vfNewPosix(cfg)
	present, data, etag, coherent := vfKeyState(q, key)
	zzvf.Assert(coherent, "length-matches-data-after-crash")
	isOld := zzvf.And(present, zzvf.BytesEq(data, oldBody), etag == vfQuotedMD5(oldBody))
	isNew := zzvf.And(present, zzvf.BytesEq(data, newBody), etag == vfQuotedMD5(newBody))
	if isDelete {
		zzvf.Assert(zzvf.Or(!present, isOld), "delete-leaves-complete-object-or-nothing")
	} else {
		zzvf.Assert(zzvf.Or(isOld, isNew), "overwrite-leaves-complete-old-or-complete-new-object")
		if !crashed {
			zzvf.Assert(isNew, "acknowledged-upload-persists")
		}
	}
	// the previous content is still there under its version id
	g, gerr := q.GetObject(vfCtx(), &s3.GetObjectInput{Bucket: vfStr("bkt"), Key: &key, VersionId: &oldID, Range: vfStr("")})
	zzvf.Assert(gerr == nil, "previous-version-retrievable-by-id-after-crash")
	if gerr == nil {
		b, _ := io.ReadAll(g.Body)
		zzvf.Assert(zzvf.BytesEq(b, oldBody), "previous-version-content-intact-after-crash")
	}
}

// VfInterleaveHead: C05 for HEAD – an overwriting PutObject (body of 0..2 symbolic bytes) or a DeleteObject runs entirely at
// one file-system step of a HeadObject on the same key. A successful HEAD reports the length and ETag of one write (the old
// object or the new one), never the length of one with the ETag of the other; an overwritten key never reads as missing.
func VfInterleaveHead() {
	vfWorld()
	zzvfos.M.OTmpfile = zzvf.Choice("otmpfile_supported", 2) == 1
	p := vfNewPosix(vfConfig{})
	q := vfNewPosix(vfConfig{})
	vfMustBucket(p, "bkt")
	key := "k"
	one := int64(1)
	oldBody := []byte("O")
	_, err := p.PutObject(vfCtx(), s3response.PutObjectInput{Bucket: vfStr("bkt"), Key: &key, Body: bytes.NewReader(oldBody), ContentLength: &one})
	zzvf.Assert(err == nil, "setup-old-object")
	newBody := zzvf.Bytes("new_body", 2)
	newLen := int64(len(newBody))
	isDelete := zzvf.Choice("writer_is_delete", 2) == 1
	var wErr error
	var h *s3.HeadObjectOutput
	var hErr error
	fired := vfNestAt(40, func() {
		if isDelete {
			_, wErr = q.DeleteObject(vfCtx(), &s3.DeleteObjectInput{Bucket: vfStr("bkt"), Key: &key})
		} else {
			_, wErr = q.PutObject(vfCtx(), s3response.PutObjectInput{Bucket: vfStr("bkt"), Key: &key, Body: bytes.NewReader(newBody), ContentLength: &newLen})
		}
	}, func() { h, hErr = p.HeadObject(vfCtx(), &s3.HeadObjectInput{Bucket: vfStr("bkt"), Key: &key}) })
	zzvf.Assume(fired)
	zzvf.Reach("interleaved")
	zzvf.Assert(wErr == nil, "writer-succeeds")
	if hErr != nil {
		zzvf.Assert(isDelete, "overwritten-key-never-reads-as-missing")
		return
	}
	zzvf.Assert(h.ETag != nil && h.ContentLength != nil, "head-has-etag-and-length")
	if h.ETag == nil || h.ContentLength == nil {
		return
	}
	isOld := zzvf.And(*h.ETag == vfQuotedMD5(oldBody), *h.ContentLength == 1)
	isNew := zzvf.And(*h.ETag == vfQuotedMD5(newBody), *h.ContentLength == newLen)
	if isDelete {
		zzvf.Assert(isOld, "head-describes-one-complete-write")
	} else {
		zzvf.Assert(zzvf.Or(isOld, isNew), "head-describes-one-complete-write")
	}
}

// vfNestAt runs outer and, before its chosen file-system step, inner (once); it reports whether inner ran.
func vfNestAt(maxSteps int, inner, outer func()) bool {
	at := zzvf.Choice("at_step", maxSteps)
	zzvf.Bound("steps_max", maxSteps)
	start := zzvfos.M.Steps
	fired := false
	zzvfos.M.StepHook = func(opname, path string) {
		if !fired && zzvfos.M.Steps-start == at+1 {
			fired = true
			zzvfos.M.StepHook = nil
			zzvf.Trace("other operation runs before " + opname + " " + path)
			inner()
		}
	}
	outer()
	zzvfos.M.StepHook = nil
	return fired
}

// VfCrashUploadPart: C11 – UploadPart (part 2 of an upload that already holds an acknowledged part 1) killed before any of
// its file-system steps, under both temp-file strategies. After a restart the bookkeeping is intact and nothing left over
// is visible: ListMultipartUploads lists exactly the one upload, ListParts lists part 1 (and part 2 only if it is
// complete), the part can be uploaded again, the upload can be completed, and nothing of it shows up in object listings.
func VfCrashUploadPart() {
	vfWorld()
	zzvfos.M.OTmpfile = zzvf.Choice("otmpfile_supported", 2) == 1
	cfg := vfConfig{noTmpFile: zzvf.Choice("no_tmpfile", 2) == 1}
	p := vfNewPosix(cfg)
	vfMustBucket(p, "bkt")
	key := "k"
	one := int64(1)
	up, err := p.CreateMultipartUpload(vfCtx(), s3response.CreateMultipartUploadInput{Bucket: vfStr("bkt"), Key: &key})
	zzvf.Assert(err == nil, "setup-upload")
	pn1, pn2 := int32(1), int32(2)
	_, err = p.UploadPart(vfCtx(), &s3.UploadPartInput{Bucket: vfStr("bkt"), Key: &key, UploadId: &up.UploadId, PartNumber: &pn1, Body: bytes.NewReader([]byte("A")), ContentLength: &one})
	zzvf.Assert(err == nil, "setup-part-1")
	crashed := vfCrashRun(40, func() {
		_, _ = p.UploadPart(vfCtx(), &s3.UploadPartInput{Bucket: vfStr("bkt"), Key: &key, UploadId: &up.UploadId, PartNumber: &pn2, Body: bytes.NewReader([]byte("B")), ContentLength: &one})
	})
	if crashed {
		zzvf.Reach("crashed")
	} else {
		zzvf.Reach("completed-without-crash")
	}
	q := vfNewPosix(cfg)
	mu := int32(100)
	l, err := q.ListMultipartUploads(vfCtx(), &s3.ListMultipartUploadsInput{Bucket: vfStr("bkt"), Delimiter: vfStr(""), Prefix: vfStr(""), UploadIdMarker: vfStr(""),
		MaxUploads: &mu, KeyMarker: vfStr("")})
	zzvf.Assert(err == nil, "list-uploads-works-after-crash")
	if err == nil {
		zzvf.Assert(len(l.Uploads) == 1 && l.Uploads[0].UploadID == up.UploadId, "exactly-the-real-upload-is-listed-after-crash")
	}
	mp := int32(100)
	lp, err := q.ListParts(vfCtx(), &s3.ListPartsInput{Bucket: vfStr("bkt"), Key: &key, UploadId: &up.UploadId, PartNumberMarker: vfStr(""), MaxParts: &mp})
	zzvf.Assert(err == nil, "list-parts-works-after-crash")
	if err == nil {
		zzvf.Assert(len(lp.Parts) >= 1 && lp.Parts[0].PartNumber == 1, "acknowledged-part-still-listed-after-crash")
		for _, pt := range lp.Parts {
			zzvf.Assert(pt.PartNumber == 1 || pt.PartNumber == 2, "only-real-parts-listed-after-crash")
			if pt.PartNumber == 2 {
				zzvf.Assert(pt.Size == 1, "listed-part-is-complete")
			}
		}
		if !crashed {
			zzvf.Assert(len(lp.Parts) == 2, "acknowledged-part-2-persists")
		}
	}
	mk := int32(100)
	lo, err := q.ListObjectsV2(vfCtx(), &s3.ListObjectsV2Input{Bucket: vfStr("bkt"), Prefix: vfStr(""), ContinuationToken: vfStr(""), Delimiter: vfStr(""), StartAfter: vfStr(""), MaxKeys: &mk})
	zzvf.Assert(err == nil && len(lo.Contents) == 0, "nothing-of-the-upload-is-listed-as-an-object")
	pr, err := q.UploadPart(vfCtx(), &s3.UploadPartInput{Bucket: vfStr("bkt"), Key: &key, UploadId: &up.UploadId, PartNumber: &pn2, Body: bytes.NewReader([]byte("B")), ContentLength: &one})
	zzvf.Assert(err == nil, "part-can-be-uploaded-again-after-crash")
	if err != nil {
		return
	}
	e1 := hex.EncodeToString(func() []byte { s := zzvf.SumMD5([]byte("A")); return s[:] }())
	_, err = q.CompleteMultipartUpload(vfCtx(), &s3.CompleteMultipartUploadInput{Bucket: vfStr("bkt"), Key: &key, UploadId: &up.UploadId,
		MultipartUpload: &types.CompletedMultipartUpload{Parts: []types.CompletedPart{{PartNumber: &pn1, ETag: &e1}, {PartNumber: &pn2, ETag: pr.ETag}}}})
	// part 1 is below the 5 MiB minimum for a non-final part: the completion is refused for that reason only
	_ = err
	zzvf.Assert(q.AbortMultipartUpload(vfCtx(), &s3.AbortMultipartUploadInput{Bucket: vfStr("bkt"), Key: &key, UploadId: &up.UploadId}) == nil || err == nil, "upload-can-be-aborted-after-crash")
	zzvf.Assert(q.DeleteBucket(vfCtx(), "bkt") == nil || err == nil, "bucket-deletion-works-after-crash")
}

// VfCrashVersionedDeleteByID: C11 – in a bucket with versioning enabled the key holds two versions (V1 "O", then V2: an
// object or a delete marker); DeleteObject with the id of the newest one (which re-exposes V1) or of the older one is
// killed before an arbitrary file-system step. After a restart the key is in its complete previous state (V2 current,
// V1 by id) or its complete new state (the addressed version gone, the other one current and retrievable by id), and
// V1's bytes are never lost unless V1 was the one deleted.
func VfCrashVersionedDeleteByID() {
	vfWorld()
	zzvfos.M.OTmpfile = zzvf.Choice("otmpfile_supported", 2) == 1
	cfg := vfConfig{versioning: true}
	p := vfNewPosix(cfg)
	vfMustBucket(p, "bkt")
	zzvf.Assert(p.PutBucketVersioning(vfCtx(), "bkt", types.BucketVersioningStatusEnabled) == nil, "setup-enable-versioning")
	key := "k"
	one := int64(1)
	oldBody, newBody := []byte("O"), []byte("N")
	out, err := p.PutObject(vfCtx(), s3response.PutObjectInput{Bucket: vfStr("bkt"), Key: &key, Body: bytes.NewReader(oldBody), ContentLength: &one})
	zzvf.Assert(err == nil, "setup-first-version")
	v1 := out.VersionID
	newestIsMarker := zzvf.Choice("newest_is_delete_marker", 2) == 1
	var v2 string
	if newestIsMarker {
		d, err := p.DeleteObject(vfCtx(), &s3.DeleteObjectInput{Bucket: vfStr("bkt"), Key: &key})
		zzvf.Assert(err == nil && d.VersionId != nil, "setup-delete-marker")
		if err != nil || d.VersionId == nil {
			return
		}
		v2 = *d.VersionId
	} else {
		out, err = p.PutObject(vfCtx(), s3response.PutObjectInput{Bucket: vfStr("bkt"), Key: &key, Body: bytes.NewReader(newBody), ContentLength: &one})
		zzvf.Assert(err == nil, "setup-second-version")
		v2 = out.VersionID
	}
	deleteNewest := zzvf.Choice("delete_the_newest", 2) == 1
	target := v1
	if deleteNewest {
		target = v2
	}
	var opErr error
	crashed := vfCrashRun(80, func() {
		_, opErr = p.DeleteObject(vfCtx(), &s3.DeleteObjectInput{Bucket: vfStr("bkt"), Key: &key, VersionId: &target})
	})
	if crashed {
		zzvf.Reach("crashed")
	} else {
		zzvf.Reach("completed-without-crash")
		zzvf.Assert(opErr == nil, "operation-succeeds")
	}
	q := vfNewPosix(cfg)
	present, data, etag, coherent := vfKeyState(q, key)
	zzvf.Assert(coherent, "length-matches-data-after-crash")
	isV1 := zzvf.And(present, zzvf.BytesEq(data, oldBody), etag == vfQuotedMD5(oldBody))
	isV2 := zzvf.And(present, zzvf.BytesEq(data, newBody), etag == vfQuotedMD5(newBody))
	if newestIsMarker {
		isV2 = !present
	}
	byID := func(id string, want []byte) bool {
		g, gerr := q.GetObject(vfCtx(), &s3.GetObjectInput{Bucket: vfStr("bkt"), Key: &key, VersionId: &id, Range: vfStr("")})
		if gerr != nil {
			return false
		}
		b, _ := io.ReadAll(g.Body)
		return zzvf.BytesEq(b, want) && g.ETag != nil && *g.ETag == vfQuotedMD5(want)
	}
	if deleteNewest {
		// previous state: V2 current; new state: V1 current again
		zzvf.Assert(zzvf.Or(isV1, isV2), "key-reads-as-the-previous-or-the-re-exposed-version-after-crash")
		zzvf.Assert(byID(v1, oldBody), "older-version-retrievable-by-id-after-crash")
		if !crashed {
			zzvf.Assert(isV1, "acknowledged-delete-by-id-re-exposes-the-previous-version")
		}
	} else {
		// the older version is deleted: the key keeps reading as V2 at every point
		zzvf.Assert(isV2, "deleting-an-older-version-never-changes-what-the-key-reads-as")
		if !newestIsMarker {
			zzvf.Assert(byID(v2, newBody), "newest-version-retrievable-by-id-after-crash")
		}
		if !crashed {
			zzvf.Assert(!byID(v1, oldBody), "acknowledged-delete-by-id-removes-the-version")
		}
	}
	// nothing left over blocks the key: a new write and a delete work
	_, err = q.PutObject(vfCtx(), s3response.PutObjectInput{Bucket: vfStr("bkt"), Key: &key, Body: bytes.NewReader([]byte("Z")), ContentLength: &one})
	zzvf.Assert(err == nil, "key-writable-after-crash")
}

// VfCrashVersionedWriters: C11 – the key holds V1 (written while versioning was enabled); the bucket is enabled or suspended;
// an overwriting PutObject, a DeleteObject without id or a CompleteMultipartUpload onto the key is killed before an
// arbitrary file-system step. After a restart the key reads as complete V1 or as the complete new state, and V1 stays
// retrievable byte-exact under its id in every case.
func VfCrashVersionedWriters() {
	vfWorld()
	zzvfos.M.OTmpfile = zzvf.Choice("otmpfile_supported", 2) == 1
	cfg := vfConfig{versioning: true}
	p := vfNewPosix(cfg)
	vfMustBucket(p, "bkt")
	zzvf.Assert(p.PutBucketVersioning(vfCtx(), "bkt", types.BucketVersioningStatusEnabled) == nil, "setup-enable-versioning")
	key := "k"
	one := int64(1)
	oldBody, newBody := []byte("O"), []byte("N")
	out, err := p.PutObject(vfCtx(), s3response.PutObjectInput{Bucket: vfStr("bkt"), Key: &key, Body: bytes.NewReader(oldBody), ContentLength: &one})
	zzvf.Assert(err == nil, "setup-first-version")
	v1 := out.VersionID
	if zzvf.Choice("suspended", 2) == 1 {
		zzvf.Assert(p.PutBucketVersioning(vfCtx(), "bkt", types.BucketVersioningStatusSuspended) == nil, "setup-suspend-versioning")
	}
	op := zzvf.Choice("operation", 3) // 0 put, 1 delete, 2 multipart completion
	var up s3response.InitiateMultipartUploadResult
	var partETag *string
	pn := int32(1)
	if op == 2 {
		up, err = p.CreateMultipartUpload(vfCtx(), s3response.CreateMultipartUploadInput{Bucket: vfStr("bkt"), Key: &key})
		zzvf.Assert(err == nil, "setup-upload")
		pr, err := p.UploadPart(vfCtx(), &s3.UploadPartInput{Bucket: vfStr("bkt"), Key: &key, UploadId: &up.UploadId, PartNumber: &pn, Body: bytes.NewReader(newBody), ContentLength: &one})
		zzvf.Assert(err == nil, "setup-part")
		if err != nil {
			return
		}
		partETag = pr.ETag
	}
	var opErr error
	crashed := vfCrashRun(100, func() {
		switch op {
		case 0:
			_, opErr = p.PutObject(vfCtx(), s3response.PutObjectInput{Bucket: vfStr("bkt"), Key: &key, Body: bytes.NewReader(newBody), ContentLength: &one})
		case 1:
			_, opErr = p.DeleteObject(vfCtx(), &s3.DeleteObjectInput{Bucket: vfStr("bkt"), Key: &key})
		case 2:
			_, opErr = p.CompleteMultipartUpload(vfCtx(), &s3.CompleteMultipartUploadInput{Bucket: vfStr("bkt"), Key: &key, UploadId: &up.UploadId,
				MultipartUpload: &types.CompletedMultipartUpload{Parts: []types.CompletedPart{{PartNumber: &pn, ETag: partETag}}}})
		}
	})
	if crashed {
		zzvf.Reach("crashed")
	} else {
		zzvf.Reach("completed-without-crash")
		zzvf.Assert(opErr == nil, "operation-succeeds")
	}
	q := vfNewPosix(cfg)
	present, data, etag, coherent := vfKeyState(q, key)
	zzvf.Assert(coherent, "length-matches-data-after-crash")
	isOld := zzvf.And(present, zzvf.BytesEq(data, oldBody), etag == vfQuotedMD5(oldBody))
	isNewData := zzvf.And(present, zzvf.BytesEq(data, newBody))
	switch op {
	case 0:
		zzvf.Assert(zzvf.Or(isOld, zzvf.And(isNewData, etag == vfQuotedMD5(newBody))), "overwrite-leaves-complete-old-or-complete-new-object")
		if !crashed {
			zzvf.Assert(isNewData, "acknowledged-upload-persists")
		}
	case 1:
		zzvf.Assert(zzvf.Or(!present, isOld), "delete-leaves-complete-object-or-nothing")
		if !crashed {
			zzvf.Assert(!present, "acknowledged-delete-persists")
		}
	case 2:
		zzvf.Assert(zzvf.Or(isOld, isNewData), "completion-leaves-complete-old-or-complete-new-object")
		if !crashed {
			zzvf.Assert(isNewData, "acknowledged-completion-persists")
		}
	}
	g, gerr := q.GetObject(vfCtx(), &s3.GetObjectInput{Bucket: vfStr("bkt"), Key: &key, VersionId: &v1, Range: vfStr("")})
	zzvf.Assert(gerr == nil, "previous-version-retrievable-by-id-after-crash")
	if gerr == nil {
		b, _ := io.ReadAll(g.Body)
		zzvf.Assert(zzvf.BytesEq(b, oldBody), "previous-version-content-intact-after-crash")
		zzvf.Assert(g.ETag != nil && *g.ETag == vfQuotedMD5(oldBody), "previous-version-etag-intact-after-crash")
	}
}

// VfInterleaveDeleteByID: C05 – in a versioning-enabled bucket the key holds V1 "O" and V2 (symbolic byte); a DeleteObject of
// versionId=V2 (which re-exposes V1) and a GET of the key run concurrently, one of them entirely at one file-system step of
// the other. The GET returns complete V2 or complete V1 (bytes, length and ETag of one version), never "missing"; a read
// after the acknowledged delete sees V1.
func VfInterleaveDeleteByID() {
	vfWorld()
	zzvfos.M.OTmpfile = zzvf.Choice("otmpfile_supported", 2) == 1
	cfg := vfConfig{versioning: true}
	p := vfNewPosix(cfg)
	q := vfNewPosix(cfg)
	vfMustBucket(p, "bkt")
	zzvf.Assert(p.PutBucketVersioning(vfCtx(), "bkt", types.BucketVersioningStatusEnabled) == nil, "setup-enable-versioning")
	key := "k"
	one := int64(1)
	oldBody := []byte("O")
	newBody := zzvf.BytesN("second_body", 1)
	_, err := p.PutObject(vfCtx(), s3response.PutObjectInput{Bucket: vfStr("bkt"), Key: &key, Body: bytes.NewReader(oldBody), ContentLength: &one})
	zzvf.Assert(err == nil, "setup-first-version")
	out, err := p.PutObject(vfCtx(), s3response.PutObjectInput{Bucket: vfStr("bkt"), Key: &key, Body: bytes.NewReader(newBody), ContentLength: &one})
	zzvf.Assert(err == nil, "setup-second-version")
	v2 := out.VersionID
	var wErr error
	var rPresent, rCoherent bool
	var rData []byte
	var rETag string
	writer := func() { _, wErr = q.DeleteObject(vfCtx(), &s3.DeleteObjectInput{Bucket: vfStr("bkt"), Key: &key, VersionId: &v2}) }
	reader := func() { rPresent, rData, rETag, rCoherent = vfKeyState(p, key) }
	var fired bool
	if zzvf.Choice("reader_inside_writer", 2) == 1 {
		fired = vfNestAt(80, reader, writer)
	} else {
		fired = vfNestAt(40, writer, reader)
	}
	zzvf.Assume(fired)
	zzvf.Reach("interleaved")
	zzvf.Assert(wErr == nil, "writer-succeeds")
	zzvf.Assert(rPresent, "key-with-a-live-version-never-reads-as-missing")
	if rPresent {
		zzvf.Assert(rCoherent, "get-length-matches-body")
		isV1 := zzvf.And(zzvf.BytesEq(rData, oldBody), rETag == vfQuotedMD5(oldBody))
		isV2 := zzvf.And(zzvf.BytesEq(rData, newBody), rETag == vfQuotedMD5(newBody))
		zzvf.Assert(zzvf.Or(isV1, isV2), "get-returns-one-complete-version")
	}
	present, data, etag, _ := vfKeyState(p, key)
	zzvf.Assert(zzvf.And(present, zzvf.BytesEq(data, oldBody), etag == vfQuotedMD5(oldBody)), "read-after-acknowledged-delete-by-id-sees-the-previous-version")
}
