package posix

import (
	"bytes"
	"context"
	"encoding/json"
	"sort"

	"github.com/aws/aws-sdk-go-v2/service/s3"
	"github.com/aws/aws-sdk-go-v2/service/s3/types"
	"github.com/versity/versitygw/auth"
	"github.com/versity/versitygw/internal/zzvf"
	"github.com/versity/versitygw/internal/zzvfos"
	"github.com/versity/versitygw/s3err"
	"github.com/versity/versitygw/s3response"
)

func vfCtxOf(access string) context.Context {
	return context.WithValue(context.Background(), "account", auth.Account{Access: access, Role: auth.RoleUser})
}

func vfACL(owner string) []byte {
	b, _ := json.Marshal(auth.ACL{Owner: owner})
	return b
}

// VfListBuckets: C16 – ListBuckets over any population of up to three buckets (owned by the caller, by somebody else, or a
// directory without ACL attribute), any prefix / page size, admin or not: following the continuation tokens from the start
// lists exactly the caller's buckets (all buckets for an admin) under the prefix, ascending, without repetition, and ends.
func VfListBuckets() {
	vfWorld()
	p := vfNewPosix(vfConfig{})
	names := []string{"aa", "ab", "b"}
	owners := []string{"alice", "bob", ""}
	owner := map[string]string{}
	var present []string
	for _, n := range names {
		if zzvf.Choice("bucket_"+n+"_present", 2) == 0 {
			continue
		}
		o := owners[zzvf.Choice("bucket_"+n+"_owner", 3)]
		if o == "" {
			zzvfos.Mkdir(n, 0o755) // a directory in the root without gateway attributes
		} else {
			err := p.CreateBucket(vfCtxOf(o), &s3.CreateBucketInput{Bucket: vfStr(n)}, vfACL(o))
			zzvf.Assert(err == nil, "setup-create-bucket")
		}
		owner[n] = o
		present = append(present, n)
	}
	if zzvf.Choice("plain_file_in_root", 2) == 1 {
		zzvfos.WriteFile("a0", []byte("x"), 0o644)
	}
	prefix := []string{"", "a", "ab", "c"}[zzvf.Choice("prefix", 4)]
	max := int32(1 + zzvf.Choice("max_buckets_minus_1", 3))
	admin := zzvf.Choice("caller_is_admin", 2) == 1
	var want []string
	for _, n := range present {
		if len(n) >= len(prefix) && n[:len(prefix)] == prefix && (admin || owner[n] == "alice") {
			want = append(want, n)
		}
	}
	sort.Strings(want)
	var got []string
	token := ""
	pages := 0
	for {
		pages++
		if pages > len(names)+2 {
			zzvf.Fail("listing-terminates")
			return
		}
		res, err := p.ListBuckets(context.Background(), s3response.ListBucketsInput{Owner: "alice", IsAdmin: admin, Prefix: prefix, MaxBuckets: max, ContinuationToken: token})
		zzvf.Assert(err == nil, "list-buckets-succeeds")
		if err != nil {
			return
		}
		zzvf.Assert(len(res.Buckets.Bucket) <= int(max), "page-not-larger-than-max-buckets")
		for _, b := range res.Buckets.Bucket {
			got = append(got, b.Name)
		}
		if res.ContinuationToken == "" {
			break
		}
		zzvf.Assert(res.ContinuationToken != token, "continuation-token-advances")
		token = res.ContinuationToken
	}
	zzvf.Reach("listing-complete")
	same := len(got) == len(want)
	if same {
		for i := range got {
			if got[i] != want[i] {
				same = false
			}
		}
	}
	zzvf.Assert(same, "pages-list-exactly-the-callers-buckets-in-order")
}

type vfSnapEntry struct {
	path  string
	dir   bool
	data  []byte
	xkeys []string
	xvals [][]byte
}

func vfSnapshot(path string, n *zzvfos.Inode, out *[]vfSnapEntry) {
	e := vfSnapEntry{path: path, dir: n.Dir, data: append([]byte{}, n.Data...)}
	for k := range n.Xattr {
		e.xkeys = append(e.xkeys, k)
	}
	sort.Strings(e.xkeys)
	for _, k := range e.xkeys {
		e.xvals = append(e.xvals, append([]byte{}, n.Xattr[k]...))
	}
	*out = append(*out, e)
	if n.Dir {
		var kids []string
		for k := range n.Kids {
			kids = append(kids, k)
		}
		sort.Strings(kids)
		for _, k := range kids {
			vfSnapshot(path+"/"+k, n.Kids[k], out)
		}
	}
}

func vfSnapEqual(a, b []vfSnapEntry) bool {
	if len(a) != len(b) {
		return false
	}
	for i := range a {
		x, y := a[i], b[i]
		if x.path != y.path || x.dir != y.dir || !zzvf.BytesEq(x.data, y.data) || len(x.xkeys) != len(y.xkeys) {
			return false
		}
		for j := range x.xkeys {
			if x.xkeys[j] != y.xkeys[j] || !zzvf.BytesEq(x.xvals[j], y.xvals[j]) {
				return false
			}
		}
	}
	return true
}

// VfCreateExisting: C16 – CreateBucket on a name that already exists (owned by the caller, by somebody else, or a directory
// whose attributes were never stored) fails and leaves owner, ACL, settings and contents byte-identical.
func VfCreateExisting() {
	vfWorld()
	cfg := vfConfig{versioning: zzvf.Choice("versioning_dir", 2) == 1}
	p := vfNewPosix(cfg)
	state := zzvf.Choice("existing_bucket", 3) // 0 owned by the caller, 1 owned by somebody else, 2 directory without attributes
	switch state {
	case 0, 1:
		o := []string{"alice", "bob"}[state]
		zzvf.Assert(p.CreateBucket(vfCtxOf(o), &s3.CreateBucketInput{Bucket: vfStr("bkt"), ObjectOwnership: types.ObjectOwnershipBucketOwnerEnforced}, vfACL(o)) == nil, "setup-create-bucket")
		zzvf.Assert(p.PutBucketTagging(context.Background(), "bkt", map[string]string{"t": "v"}) == nil, "setup-tags")
	case 2:
		zzvfos.Mkdir("bkt", 0o755)
	}
	zzvfos.WriteFile("bkt/obj", []byte("D"), 0o644)
	var before, after []vfSnapEntry
	vfSnapshot("bkt", zzvfos.M.Cwd.Kids["bkt"], &before)
	lock := zzvf.Choice("request_enables_object_lock", 2) == 1
	in := &s3.CreateBucketInput{Bucket: vfStr("bkt"), ObjectOwnership: types.ObjectOwnershipBucketOwnerPreferred, ObjectLockEnabledForBucket: &lock}
	err := p.CreateBucket(vfCtxOf("alice"), in, vfACL("alice"))
	zzvf.Reach("create-returned")
	zzvf.Assert(err != nil, "create-of-existing-bucket-fails")
	if n := zzvfos.M.Cwd.Kids["bkt"]; n != nil {
		vfSnapshot("bkt", n, &after)
	}
	zzvf.Assert(vfSnapEqual(before, after), "existing-bucket-untouched-by-create")
	if state == 0 {
		zzvf.Assert(vfIsAPIErr(err, s3err.ErrBucketAlreadyOwnedByYou), "own-bucket-reported-as-already-owned")
	}
	if state == 1 {
		zzvf.Assert(vfIsAPIErr(err, s3err.ErrBucketAlreadyExists), "foreign-bucket-reported-as-already-exists")
	}
}

func vfIsAPIErr(err error, code s3err.ErrorCode) bool {
	e, ok := err.(s3err.APIError)
	return ok && e.Code == s3err.GetAPIError(code).Code
}

// VfBucketSettings: C16 – each bucket setting reads back exactly as last written, through a fresh Posix value (restart /
// another gateway process), and is gone once deleted: programs of up to 2 (3) put / delete operations on one setting.
func VfBucketSettings() {
	vfWorld()
	cfg := vfConfig{versioning: true}
	p := vfNewPosix(cfg)
	lockOn := true
	zzvf.Assert(p.CreateBucket(vfCtxOf("alice"), &s3.CreateBucketInput{Bucket: vfStr("bkt"), ObjectLockEnabledForBucket: &lockOn}, vfACL("alice")) == nil, "setup-create-bucket")
	kinds := []string{"tags", "policy", "acl", "ownership", "versioning", "lock"}
	kind := zzvf.Choice("setting", len(kinds))
	zzvf.Trace("setting: " + kinds[kind])
	nops := 2 + zzvf.Tier()
	zzvf.Bound("operations_max", nops)
	n := 1 + zzvf.Choice("operations", nops)
	ctx := context.Background()
	// reference: the value last written (nil = never written / deleted)
	var cur []byte
	var lockDays int32
	written := false
	ownerships := []types.ObjectOwnership{types.ObjectOwnershipBucketOwnerEnforced, types.ObjectOwnershipBucketOwnerPreferred, types.ObjectOwnershipObjectWriter}
	for i := 0; i < n; i++ {
		del := zzvf.Choice("operation_is_delete", 2) == 1
		if del && (kind == 2 || kind == 4 || kind == 5) {
			continue // ACL, versioning state and lock configuration have no delete operation
		}
		var err error
		switch kind {
		case 0:
			if del {
				err = p.DeleteBucketTagging(ctx, "bkt")
			} else {
				v := zzvf.StringN("tag_value", 1)
				err = p.PutBucketTagging(ctx, "bkt", map[string]string{"k": v})
				cur = []byte(v)
			}
		case 1:
			if del {
				err = p.DeleteBucketPolicy(ctx, "bkt")
			} else {
				v := zzvf.Bytes("policy_bytes", 2)
				err = p.PutBucketPolicy(ctx, "bkt", v)
				cur = v
			}
		case 2:
			v := zzvf.Bytes("acl_bytes", 2)
			err = p.PutBucketAcl(ctx, "bkt", v)
			cur = v
		case 3:
			if del {
				err = p.DeleteBucketOwnershipControls(ctx, "bkt")
			} else {
				o := ownerships[zzvf.Choice("ownership", 3)]
				err = p.PutBucketOwnershipControls(ctx, "bkt", o)
				cur = []byte(o)
			}
		case 4:
			st := []types.BucketVersioningStatus{types.BucketVersioningStatusEnabled, types.BucketVersioningStatusSuspended}[zzvf.Choice("versioning_status", 2)]
			err = p.PutBucketVersioning(ctx, "bkt", st)
			if err == nil {
				cur = []byte(st)
			} else {
				// suspending is refused on a bucket with object lock: nothing changes
				zzvf.Assert(st == types.BucketVersioningStatusSuspended, "enabling-versioning-succeeds")
				continue
			}
		case 5:
			days := int32(zzvf.IntRange("lock_default_retention_days", 1, 1000))
			v, _ := json.Marshal(auth.BucketLockConfig{Enabled: true, DefaultRetention: &types.DefaultRetention{Days: &days, Mode: types.ObjectLockRetentionModeGovernance}})
			err = p.PutObjectLockConfiguration(ctx, "bkt", v)
			lockDays = days
			cur = v
		}
		zzvf.Assert(err == nil, "setting-operation-succeeds")
		written = !del
		if kind == 4 || kind == 5 || kind == 2 {
			written = true
		}
	}
	q := vfNewPosix(cfg) // restart
	zzvf.Reach("read-back")
	switch kind {
	case 0:
		tags, err := q.GetBucketTagging(ctx, "bkt")
		if written {
			zzvf.Assert(zzvf.And(err == nil, len(tags) == 1, tags["k"] == string(cur)), "tags-read-back-as-written")
		} else {
			zzvf.Assert(zzvf.Or(err != nil, len(tags) == 0), "deleted-tags-are-gone")
		}
	case 1:
		b, err := q.GetBucketPolicy(ctx, "bkt")
		if written {
			zzvf.Assert(zzvf.And(err == nil, zzvf.BytesEq(b, cur)), "policy-reads-back-as-written")
		} else {
			zzvf.Assert(err != nil, "deleted-policy-is-gone")
		}
	case 2:
		b, err := q.GetBucketAcl(ctx, &s3.GetBucketAclInput{Bucket: vfStr("bkt")})
		if written && len(cur) > 0 {
			zzvf.Assert(zzvf.And(err == nil, zzvf.BytesEq(b, cur)), "acl-reads-back-as-written")
		}
	case 3:
		o, err := q.GetBucketOwnershipControls(ctx, "bkt")
		if written {
			zzvf.Assert(zzvf.And(err == nil, string(o) == string(cur)), "ownership-reads-back-as-written")
		} else if cur != nil {
			zzvf.Assert(err != nil, "deleted-ownership-controls-are-gone")
		}
	case 4:
		out, err := q.GetBucketVersioning(ctx, "bkt")
		zzvf.Assert(err == nil, "versioning-state-readable")
		if err == nil && cur != nil {
			zzvf.Assert(zzvf.And(out.Status != nil, out.Status != nil && string(*out.Status) == string(cur)), "versioning-state-reads-back-as-written")
		}
	case 5:
		b, err := q.GetObjectLockConfiguration(ctx, "bkt")
		zzvf.Assert(err == nil, "lock-configuration-readable")
		if cur != nil && err == nil {
			out, perr := auth.ParseBucketLockConfigurationOutput(b)
			zzvf.Assert(perr == nil, "lock-configuration-parses")
			if perr == nil {
				zzvf.Assert(zzvf.And(out.ObjectLockEnabled == types.ObjectLockEnabledEnabled, out.Rule != nil && out.Rule.DefaultRetention != nil && out.Rule.DefaultRetention.Days != nil && *out.Rule.DefaultRetention.Days == lockDays), "lock-configuration-reads-back-as-written")
			}
		}
	}
}

// VfDeleteBucketRace: C16 – DeleteBucket concurrent with an upload-side request on the same bucket (PutObject,
// CompleteMultipartUpload). One request runs entirely at a file-system step of the other
// (both nesting directions, every position) or after it. Oracle: DeleteBucket succeeds only on a bucket without objects;
// an acknowledged PutObject is readable after both returned unless the delete came strictly later and failed/…: precisely,
// not (put acknowledged and delete acknowledged and the put was not acknowledged before the delete started).
func VfDeleteBucketRace() {
	vfWorld()
	zzvfos.M.OTmpfile = zzvf.Choice("otmpfile_supported", 2) == 1
	cfg := vfConfig{versioning: zzvf.Choice("versioning_dir", 2) == 1}
	p := vfNewPosix(cfg)
	q := vfNewPosix(cfg)
	zzvf.Assert(p.CreateBucket(vfCtxOf("alice"), &s3.CreateBucketInput{Bucket: vfStr("bkt")}, vfACL("alice")) == nil, "setup-create-bucket")
	other := zzvf.Choice("other_request", 2) // 0 PutObject, 1 CompleteMultipartUpload
	key := []string{"k", "d/k"}[zzvf.Choice("key", 2)]
	one := int64(1)
	var delErr, otherErr error
	uploadID := ""
	if other == 1 {
		// an upload with one stored part, ready to be completed
		up, err := q.CreateMultipartUpload(vfCtxOf("alice"), s3response.CreateMultipartUploadInput{Bucket: vfStr("bkt"), Key: &key})
		zzvf.Assert(err == nil, "setup-create-upload")
		uploadID = up.UploadId
		vfStorePart("bkt", key, uploadID, 1, []byte("P"), 0, "e1")
	}
	del := func() { delErr = p.DeleteBucket(context.Background(), "bkt") }
	oth := func() {
		switch other {
		case 0:
			_, otherErr = q.PutObject(vfCtxOf("alice"), s3response.PutObjectInput{Bucket: vfStr("bkt"), Key: &key, Body: vfOneByte(), ContentLength: &one})
		case 1:
			pn, tag := int32(1), "e1"
			_, otherErr = q.CompleteMultipartUpload(vfCtxOf("alice"), &s3.CompleteMultipartUploadInput{Bucket: vfStr("bkt"), Key: &key, UploadId: &uploadID,
				MultipartUpload: &types.CompletedMultipartUpload{Parts: []types.CompletedPart{{PartNumber: &pn, ETag: &tag}}}})
		}
	}
	nesting := zzvf.Choice("nesting", 3) // 0: other inside delete, 1: delete inside other, 2: other first, then delete
	at := zzvf.Choice("at_step", 60)
	zzvf.Bound("steps_max", 60)
	fired := false
	if nesting == 2 {
		oth()
		del()
		fired = true
	} else {
		start := zzvfos.M.Steps
		zzvfos.M.StepHook = func(opname, path string) {
			if !fired && zzvfos.M.Steps-start == at+1 {
				fired = true
				zzvfos.M.StepHook = nil
				zzvf.Trace("the other request runs before " + opname + " " + path)
				if nesting == 0 {
					oth()
				} else {
					del()
				}
			}
		}
		if nesting == 0 {
			del()
		} else {
			oth()
		}
		zzvfos.M.StepHook = nil
	}
	zzvf.Assume(fired)
	zzvf.Reach("both-returned")
	if delErr == nil && otherErr == nil {
		// both acknowledged: the upload must not be lost, so this outcome is only legitimate when nothing was uploaded
		present, _, _, _ := vfKeyState(p, key)
		zzvf.Assert(present, "acknowledged-object-survives-concurrent-delete-bucket")
	}
	if nesting == 2 && otherErr == nil {
		zzvf.Assert(delErr != nil, "delete-of-non-empty-bucket-fails")
	}
}

func vfOneByte() *vfBodyReader { return &vfBodyReader{data: []byte("N")} }

// VfDeleteBucketEmptiness: C16 – DeleteBucket succeeds only on a bucket without objects or versions: every combination of
// bucket content (nothing / only the .sgwtmp bookkeeping directory / an object / a nested object) and, with a versioning
// directory configured, of the bucket's version store (absent / empty / only .sgwtmp / holding a version). After a refusal
// the content is untouched; after success the bucket and its version store are gone.
func VfDeleteBucketEmptiness() {
	vfWorld()
	cfg := vfConfig{versioning: zzvf.Choice("versioning_dir", 2) == 1}
	p := vfNewPosix(cfg)
	zzvf.Assert(p.CreateBucket(vfCtxOf("alice"), &s3.CreateBucketInput{Bucket: vfStr("bkt")}, vfACL("alice")) == nil, "setup-create-bucket")
	content := zzvf.Choice("bucket_content", 6)
	hasObjects := false
	switch content {
	case 4: // only directory objects (keys ending in "/"), no file anywhere
		k1 := "inbox/"
		zero := int64(0)
		_, perr := p.PutObject(vfCtxOf("alice"), s3response.PutObjectInput{Bucket: vfStr("bkt"), Key: &k1, Body: bytes.NewReader(nil), ContentLength: &zero})
		zzvf.Assert(perr == nil, "setup-directory-object")
		hasObjects = true
	case 5: // a nested directory object
		k2 := "reports/2024/"
		zero := int64(0)
		_, perr := p.PutObject(vfCtxOf("alice"), s3response.PutObjectInput{Bucket: vfStr("bkt"), Key: &k2, Body: bytes.NewReader(nil), ContentLength: &zero})
		zzvf.Assert(perr == nil, "setup-directory-object")
		hasObjects = true
	case 1:
		zzvfos.MkdirAll("bkt/"+metaTmpDir, 0o755)
	case 2:
		zzvfos.WriteFile("bkt/obj", []byte("D"), 0o644)
		hasObjects = true
	case 3:
		zzvfos.MkdirAll("bkt/"+metaTmpDir, 0o755)
		zzvfos.MkdirAll("bkt/dir", 0o755)
		zzvfos.WriteFile("bkt/dir/obj", []byte("D"), 0o644)
		hasObjects = true
	}
	hasVersions := false
	if cfg.versioning {
		switch zzvf.Choice("version_store", 4) {
		case 1:
			zzvfos.MkdirAll("/vers/bkt", 0o755)
		case 2:
			zzvfos.MkdirAll("/vers/bkt/"+metaTmpDir, 0o755)
		case 3:
			zzvfos.MkdirAll("/vers/bkt/"+metaTmpDir, 0o755)
			zzvfos.MkdirAll("/vers/bkt/k1", 0o755)
			zzvfos.WriteFile("/vers/bkt/k1/v1", []byte("V"), 0o644)
			hasVersions = true
		}
	}
	var before, after []vfSnapEntry
	vfSnapshot("bkt", zzvfos.M.Cwd.Kids["bkt"], &before)
	err := p.DeleteBucket(context.Background(), "bkt")
	zzvf.Reach("delete-returned")
	if hasObjects || hasVersions {
		zzvf.Assert(err != nil, "delete-of-non-empty-bucket-fails")
	} else {
		zzvf.Assert(err == nil, "delete-of-empty-bucket-succeeds")
	}
	n := zzvfos.M.Cwd.Kids["bkt"]
	if err != nil {
		zzvf.Assert(n != nil, "refused-delete-keeps-the-bucket")
		if n != nil {
			vfSnapshot("bkt", n, &after)
			zzvf.Assert(vfSnapEqual(before, after), "refused-delete-leaves-the-content-untouched")
		}
	} else {
		zzvf.Assert(n == nil, "deleted-bucket-is-gone")
	}
}

// VfBookkeepingHidden: C07 / C08 – internal bookkeeping (the .sgwtmp directory with in-progress multipart uploads and their
// parts) never shows up in listings, whatever prefix, delimiter or marker the client chooses - including prefixes that name
// the bookkeeping directory itself.
func VfBookkeepingHidden() {
	vfWorld()
	p := vfNewPosix(vfConfig{})
	zzvf.Assert(p.CreateBucket(vfCtx(), &s3.CreateBucketInput{Bucket: vfStr("bkt")}, vfACL("caller")) == nil, "setup-create-bucket")
	key := "obj"
	one := int64(1)
	_, err := p.PutObject(vfCtx(), s3response.PutObjectInput{Bucket: vfStr("bkt"), Key: &key, Body: vfOneByte(), ContentLength: &one})
	zzvf.Assert(err == nil, "setup-object")
	up, err := p.CreateMultipartUpload(vfCtx(), s3response.CreateMultipartUploadInput{Bucket: vfStr("bkt"), Key: &key})
	zzvf.Assert(err == nil, "setup-upload")
	vfStorePart("bkt", key, up.UploadId, 1, []byte("P"), 0, "e1")
	prefix := []string{"", ".", ".sgwtmp", ".sgwtmp/", ".sgwtmp/multipart", ".sgwtmp/multipart/"}[zzvf.Choice("prefix", 6)]
	delim := []string{"", "/"}[zzvf.Choice("delimiter", 2)]
	marker := []string{"", ".", ".sgwtmp/"}[zzvf.Choice("marker", 3)]
	mk := int32(100)
	hidden := func(s string) bool { return len(s) >= len(metaTmpDir) && s[:len(metaTmpDir)] == metaTmpDir }
	var keys, cps []string
	if zzvf.Choice("list_version", 2) == 0 {
		l, err := p.ListObjects(vfCtx(), &s3.ListObjectsInput{Bucket: vfStr("bkt"), Prefix: &prefix, Marker: &marker, Delimiter: &delim, MaxKeys: &mk})
		zzvf.Assert(err == nil, "list-succeeds")
		for _, o := range l.Contents {
			keys = append(keys, *o.Key)
		}
		for _, c := range l.CommonPrefixes {
			cps = append(cps, *c.Prefix)
		}
	} else {
		l, err := p.ListObjectsV2(vfCtx(), &s3.ListObjectsV2Input{Bucket: vfStr("bkt"), Prefix: &prefix, ContinuationToken: vfStr(""), StartAfter: &marker,
			Delimiter: &delim, MaxKeys: &mk})
		zzvf.Assert(err == nil, "list-succeeds")
		for _, o := range l.Contents {
			keys = append(keys, *o.Key)
		}
		for _, c := range l.CommonPrefixes {
			cps = append(cps, *c.Prefix)
		}
	}
	zzvf.Reach("listed")
	for _, k := range keys {
		zzvf.Assert(!hidden(k), "no-bookkeeping-name-listed-as-a-key")
	}
	for _, c := range cps {
		zzvf.Assert(!hidden(c), "no-bookkeeping-name-listed-as-a-common-prefix")
	}
}

// VfPartIsNoObject: C08 – "parts and in-progress uploads never show up as objects": the file that holds an uploaded part is
// not addressable as an object of the bucket (GET / HEAD of its internal path as a key fail), and neither is the upload
// directory.
func VfPartIsNoObject() {
	vfWorld()
	p := vfNewPosix(vfConfig{})
	zzvf.Assert(p.CreateBucket(vfCtx(), &s3.CreateBucketInput{Bucket: vfStr("bkt")}, vfACL("caller")) == nil, "setup-create-bucket")
	key := "obj"
	up, err := p.CreateMultipartUpload(vfCtx(), s3response.CreateMultipartUploadInput{Bucket: vfStr("bkt"), Key: &key})
	zzvf.Assert(err == nil, "setup-upload")
	vfStorePart("bkt", key, up.UploadId, 1, []byte("P"), 0, "e1")
	partKey := vfPartPath("bkt", key, up.UploadId, 1)[len("bkt/"):]
	zzvf.Reach("probed")
	switch zzvf.Choice("probe", 3) {
	case 0:
		_, gerr := p.GetObject(vfCtx(), &s3.GetObjectInput{Bucket: vfStr("bkt"), Key: &partKey, Range: vfStr("")})
		zzvf.Assert(gerr != nil, "part-file-is-not-readable-as-an-object")
	case 1:
		_, herr := p.HeadObject(vfCtx(), &s3.HeadObjectInput{Bucket: vfStr("bkt"), Key: &partKey})
		zzvf.Assert(herr != nil, "part-file-has-no-object-metadata")
	case 2:
		// the key itself does not exist as an object yet: a HEAD for "part 1 of the object" must not answer from the upload
		pn := int32(1)
		_, perr := p.HeadObject(vfCtx(), &s3.HeadObjectInput{Bucket: vfStr("bkt"), Key: &key, PartNumber: &pn})
		zzvf.Assert(perr != nil, "in-progress-part-is-not-visible-through-head-with-part-number")
	}
}
