package posix

import (
	"bytes"
	"context"
	"encoding/json"
	"encoding/xml"
	"time"

	"github.com/aws/aws-sdk-go-v2/service/s3"
	"github.com/aws/aws-sdk-go-v2/service/s3/types"
	"github.com/versity/versitygw/auth"
	"github.com/versity/versitygw/internal/zzvf"
	"github.com/versity/versitygw/s3response"
)

// VfLockState: C10 – the protection state kept by the posix backend cannot be weakened through the lock-setting calls.
// A lock-enabled bucket holds object "k" under legal hold, COMPLIANCE or GOVERNANCE retention with an arbitrary date in
// the future. Then one or two setting changes run: PutObjectRetention (any mode, any date, with/without the bypass flag),
// PutObjectLockConfiguration (any document auth.ParseBucketLockConfigurationInput accepts), PutBucketVersioning(Suspended).
// Afterwards the real decision procedure auth.CheckObjectAccess over the real backend must still refuse to destroy "k" for
// a caller without bypass, and a COMPLIANCE retention must still be COMPLIANCE with a date not earlier than before
// (GOVERNANCE likewise unless the change carried the bypass flag).
func VfLockState() {
	zzvf.Bound("havoc_time_symbolic", 1)
	vfWorld()
	cfg := vfConfig{versioning: zzvf.Choice("versioning_dir", 2) == 1}
	p := vfNewPosix(cfg)
	ctx := vfCtxOf("alice")
	lockOn := true
	zzvf.Assert(p.CreateBucket(ctx, &s3.CreateBucketInput{Bucket: vfStr("bkt"), ObjectLockEnabledForBucket: &lockOn}, vfACL("alice")) == nil, "setup-create-bucket")
	key := "k"
	one := int64(1)
	_, err := p.PutObject(ctx, s3response.PutObjectInput{Bucket: vfStr("bkt"), Key: &key, Body: bytes.NewReader([]byte("D")), ContentLength: &one})
	zzvf.Assert(err == nil, "setup-object")
	now := time.Now()
	var until0 time.Time
	zzvf.Havoc(&until0, "retain_until_before")
	zzvf.Assume(until0.After(now.Add(time.Hour)))
	protection := zzvf.Choice("protection", 3) // 0 legal hold, 1 COMPLIANCE, 2 GOVERNANCE
	mode0 := types.ObjectLockRetentionModeCompliance
	switch protection {
	case 0:
		zzvf.Assert(p.PutObjectLegalHold(ctx, "bkt", key, "", true) == nil, "setup-legal-hold")
	default:
		if protection == 2 {
			mode0 = types.ObjectLockRetentionModeGovernance
		}
		b, _ := json.Marshal(types.ObjectLockRetention{Mode: mode0, RetainUntilDate: &until0})
		zzvf.Assert(p.PutObjectRetention(ctx, "bkt", key, "", false, b) == nil, "setup-retention")
	}
	nops := 1 + zzvf.Tier()
	zzvf.Bound("setting_changes_max", nops)
	n := 1 + zzvf.Choice("setting_changes", nops)
	bypassUsed := false
	names := []string{"PutObjectRetention", "PutObjectLockConfiguration", "PutBucketVersioning(Suspended)"}
	for i := 0; i < n; i++ {
		op := zzvf.Choice("setting_change", 3)
		zzvf.Trace("setting change: " + names[op])
		switch op {
		case 0:
			m := []types.ObjectLockRetentionMode{types.ObjectLockRetentionModeGovernance, types.ObjectLockRetentionModeCompliance}[zzvf.Choice("new_mode", 2)]
			var until1 time.Time
			zzvf.Havoc(&until1, "retain_until_new")
			b, _ := json.Marshal(types.ObjectLockRetention{Mode: m, RetainUntilDate: &until1})
			bypass := zzvf.Choice("bypass_flag", 2) == 1
			if bypass {
				bypassUsed = true
			}
			_ = p.PutObjectRetention(ctx, "bkt", key, "", bypass, b)
		case 1:
			doc := types.ObjectLockConfiguration{}
			if zzvf.Choice("document_says_enabled", 2) == 1 {
				doc.ObjectLockEnabled = types.ObjectLockEnabledEnabled
			}
			if zzvf.Choice("document_has_default_retention", 2) == 1 {
				days := int32(zzvf.IntRange("document_days", 1, 100))
				doc.Rule = &types.ObjectLockRule{DefaultRetention: &types.DefaultRetention{Mode: types.ObjectLockRetentionModeGovernance, Days: &days}}
			}
			raw, _ := xml.Marshal(doc)
			parsed, perr := auth.ParseBucketLockConfigurationInput(raw)
			if perr == nil {
				_ = p.PutObjectLockConfiguration(ctx, "bkt", parsed)
			}
		case 2:
			_ = p.PutBucketVersioning(ctx, "bkt", types.BucketVersioningStatusSuspended)
		}
	}
	zzvf.Reach("settings-changed")
	// 1. the decision procedure still protects the object from a caller without bypass
	objs := []types.ObjectIdentifier{{Key: &key}}
	stillProtected := protection == 0 || !(protection == 2 && bypassUsed)
	if stillProtected {
		derr := auth.CheckObjectAccess(context.Background(), "bkt", "mallory", objs, false, p)
		zzvf.Assert(derr != nil, "protected-object-still-refused-after-setting-changes")
	}
	// 2. the stored retention was not removed, shortened or downgraded
	if protection != 0 && !(protection == 2 && bypassUsed) {
		data, gerr := p.GetObjectRetention(ctx, "bkt", key, "")
		zzvf.Assert(gerr == nil, "retention-still-stored")
		if gerr == nil {
			var r types.ObjectLockRetention
			zzvf.Assert(json.Unmarshal(data, &r) == nil, "retention-parses")
			zzvf.Assert(r.RetainUntilDate != nil && !r.RetainUntilDate.Before(until0), "retention-not-shortened")
			if protection == 1 {
				zzvf.Assert(r.Mode == types.ObjectLockRetentionModeCompliance, "compliance-not-downgraded")
			}
		}
	}
}
