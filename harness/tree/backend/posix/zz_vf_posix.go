package posix

import (
	"bytes"
	"context"
	"crypto/sha256"
	"encoding/hex"
	"io"
	"strconv"

	"github.com/aws/aws-sdk-go-v2/service/s3"
	"github.com/aws/aws-sdk-go-v2/service/s3/types"
	"github.com/versity/versitygw/auth"
	"github.com/versity/versitygw/backend"
	"github.com/versity/versitygw/backend/meta"
	"github.com/versity/versitygw/internal/zzvf"
	"github.com/versity/versitygw/internal/zzvfos"
	"github.com/versity/versitygw/s3api/utils"
	"github.com/versity/versitygw/s3response"
)

// vfConfig: storage configuration of the gateway process (the struct holds configuration only).
type vfConfig struct {
	versioning bool
	noTmpFile  bool
}

func vfNewPosix(c vfConfig) *Posix {
	p := &Posix{meta: meta.XattrMeta{}, rootdir: "/gw", newDirPerm: 0o755, forceNoTmpFile: c.noTmpFile}
	if c.versioning {
		p.versioningDir = "/vers"
	}
	return p
}

// vfWorld creates the model file system: gateway root /gw (cwd), versioning dir /vers, a canary beside the root.
func vfWorld() *zzvfos.FS {
	m := zzvfos.New()
	zzvfos.Mkdir("/vers", 0o755)
	zzvfos.WriteFile("/canary", []byte("C"), 0o644)
	return m
}

var vfAcct = auth.Account{Access: "caller", Role: auth.RoleUser}

func vfCtx() context.Context { return context.WithValue(context.Background(), "account", vfAcct) }

func vfMustBucket(p *Posix, name string) {
	err := p.CreateBucket(vfCtx(), &s3.CreateBucketInput{Bucket: &name}, []byte{})
	zzvf.Assert(err == nil, "setup-create-bucket")
}

func vfStr(s string) *string { return &s }

// VfPutGet: C01 – a PUT acknowledged with success reads back byte-identical with its ETag, content headers and user metadata,
// through a fresh Posix value (another process / after a restart), and listings agree.
func VfPutGet() {
	n := 2 + zzvf.Tier()
	zzvf.Bound("body_len_max", n)
	vfWorld()
	cfg := vfConfig{noTmpFile: zzvf.Choice("no_tmpfile", 2) == 1}
	zzvfos.M.OTmpfile = zzvf.Choice("otmpfile_supported", 2) == 1
	p := vfNewPosix(cfg)
	vfMustBucket(p, "bkt")
	key := []string{"k", "dir/k", "a b+%"}[zzvf.Choice("key", 3)]
	body := zzvf.Bytes("body", n)
	ctype := zzvf.StringN("content_type", 1)
	mval := zzvf.StringN("meta_value", 1)
	clen := int64(len(body))
	out, err := p.PutObject(vfCtx(), s3response.PutObjectInput{
		Bucket: vfStr("bkt"), Key: &key, Body: bytes.NewReader(body), ContentLength: &clen,
		ContentType: &ctype, Metadata: map[string]string{"owner": mval},
	})
	zzvf.Assert(err == nil, "put-succeeds")
	if err != nil {
		return
	}
	sum := zzvf.SumMD5(body)
	wantETag := "\"" + hex.EncodeToString(sum[:]) + "\"" // S3 ETags are the quoted hex MD5
	zzvf.Assert(out.ETag == wantETag, "put-etag-is-content-md5")

	q := vfNewPosix(cfg) // another gateway process on the same storage
	g, err := q.GetObject(vfCtx(), &s3.GetObjectInput{Bucket: vfStr("bkt"), Key: &key, Range: vfStr("")})
	if err != nil {
		zzvf.Trace("get error:", err.Error())
	}
	zzvf.Assert(err == nil, "get-succeeds")
	if err != nil {
		return
	}
	got, rerr := io.ReadAll(g.Body)
	zzvf.Assert(rerr == nil, "get-body-readable")
	zzvf.Reach("read-back")
	zzvf.Assert(zzvf.BytesEq(got, body), "get-returns-the-uploaded-bytes")
	zzvf.Assert(zzvf.And(g.ContentLength != nil, g.ETag != nil, g.ContentType != nil), "get-has-length-etag-type")
	if g.ContentLength != nil && g.ETag != nil && g.ContentType != nil {
		zzvf.Assert(*g.ContentLength == clen, "get-length")
		zzvf.Assert(*g.ETag == wantETag, "get-etag")
		zzvf.Assert(*g.ContentType == ctype, "get-content-type")
	}
	zzvf.Assert(g.Metadata["owner"] == mval, "get-user-metadata")
	h, err := q.HeadObject(vfCtx(), &s3.HeadObjectInput{Bucket: vfStr("bkt"), Key: &key})
	zzvf.Assert(err == nil, "head-succeeds")
	if err == nil {
		zzvf.Assert(zzvf.And(h.ETag != nil, h.ContentLength != nil), "head-has-etag-length")
		if h.ETag != nil && h.ContentLength != nil {
			zzvf.Assert(zzvf.And(*h.ETag == wantETag, *h.ContentLength == clen), "head-agrees-with-get")
		}
	}
	mk := int32(1000)
	l, err := q.ListObjectsV2(vfCtx(), &s3.ListObjectsV2Input{Bucket: vfStr("bkt"), Prefix: vfStr(""), ContinuationToken: vfStr(""),
		Delimiter: vfStr(""), StartAfter: vfStr(""), MaxKeys: &mk})
	zzvf.Assert(err == nil, "list-succeeds")
	if err == nil {
		found := false
		for _, o := range l.Contents {
			if *o.Key == key {
				found = true
				zzvf.Assert(zzvf.And(*o.ETag == wantETag, *o.Size == clen), "listing-agrees-with-get")
			}
		}
		zzvf.Assert(found, "listing-shows-the-key")
	}
}

// body reader model: delivers the bytes, then io.EOF (optionally together with the last bytes)
type vfBodyReader struct {
	data        []byte
	pos         int
	eofWithData bool
}

func (b *vfBodyReader) Read(p []byte) (int, error) {
	if b.pos >= len(b.data) {
		return 0, io.EOF
	}
	n := copy(p, b.data[b.pos:])
	b.pos += n
	if b.eofWithData && b.pos >= len(b.data) {
		return n, io.EOF
	}
	return n, nil
}

// vfObjectState reads a key's stored state straight from the model (what any gateway process would find).
func vfObjectState(path string) (exists bool, data []byte, size int64, etag string) {
	fi, err := zzvfos.Stat(path)
	if err != nil {
		return false, nil, 0, ""
	}
	n := fi.(interface{ Node() *zzvfos.Inode }).Node()
	return true, n.Data, n.Size(), string(n.Xattr["user.etag"])
}

// VfUploadIntegrity: C06 – PutObject commits only if the declared length and the supplied Content-MD5 match the bytes
// actually received; then the stored object is exactly those bytes (never padded, truncated or extended); otherwise the
// key keeps its previous state.
func VfUploadIntegrity() {
	n := 2 + zzvf.Tier()
	zzvf.Bound("body_len_max", n)
	vfWorld()
	zzvfos.M.OTmpfile = zzvf.Choice("otmpfile_supported", 2) == 1
	p := vfNewPosix(vfConfig{})
	vfMustBucket(p, "bkt")
	key := "k"
	existing := zzvf.Choice("key_exists", 2) == 1
	if existing {
		old := []byte("OLD")
		ol := int64(3)
		_, err := p.PutObject(vfCtx(), s3response.PutObjectInput{Bucket: vfStr("bkt"), Key: &key, Body: bytes.NewReader(old), ContentLength: &ol})
		zzvf.Assert(err == nil, "setup-old-object")
	}
	_, oldData, oldSize, oldETag := vfObjectState("bkt/k")
	body := zzvf.Bytes("body", n)
	declared := zzvf.Int64("declared_length")
	zzvf.Assume(declared >= 0)
	var rdr io.Reader = &vfBodyReader{data: body, eofWithData: zzvf.Choice("eof_with_data", 2) == 1}
	md5Given := zzvf.Choice("content_md5", 2) == 1
	md5Match := true
	if md5Given {
		sum := zzvf.SumMD5(body)
		actual := utils.Base64SumString(sum[:])
		declaredMD5 := zzvf.StringN("declared_md5", len(actual))
		md5Match = declaredMD5 == actual
		hr, err := utils.NewHashReader(rdr, declaredMD5, utils.HashTypeMd5)
		zzvf.Assert(err == nil, "setup-hash-reader")
		rdr = hr
	}
	_, err := p.PutObject(vfCtx(), s3response.PutObjectInput{Bucket: vfStr("bkt"), Key: &key, Body: rdr, ContentLength: &declared})
	exists, data, size, etag := vfObjectState("bkt/k")
	if err == nil {
		zzvf.Reach("committed")
		zzvf.Assert(md5Match, "commit-implies-content-md5-matches")
		zzvf.Assert(declared == int64(len(body)), "commit-implies-declared-length-equals-received")
		zzvf.Assert(exists, "committed-object-exists")
		zzvf.Assert(size == int64(len(body)), "stored-size-equals-received-bytes")
		zzvf.Assert(zzvf.BytesEq(data, body), "stored-bytes-equal-received-bytes")
	} else {
		zzvf.Reach("refused")
		zzvf.Assert(exists == existing, "refused-upload-keeps-key-presence")
		if existing && exists {
			zzvf.Assert(zzvf.And(size == oldSize, zzvf.BytesEq(data, oldData), etag == oldETag), "refused-upload-keeps-previous-object")
		}
	}
}

// VfOverwriteAcrossProcesses: C01 – a key uploaded through one gateway process and overwritten through another (same
// storage) reads back and lists with the second upload's bytes and ETag through BOTH processes, also when both
// uploads have the same length and fall into the same second.
func VfOverwriteAcrossProcesses() {
	vfWorld()
	zzvfos.M.CoarseClock = zzvf.Choice("same_second", 2) == 1
	a := vfNewPosix(vfConfig{})
	b := vfNewPosix(vfConfig{})
	vfMustBucket(a, "bkt")
	key := "k"
	n := 1 + zzvf.Choice("len", 2)
	b1, b2 := zzvf.BytesN("body1", n), zzvf.BytesN("body2", n)
	cl := int64(n)
	list := func(p *Posix) (etag string, size int64, found bool) {
		mk := int32(1000)
		l, err := p.ListObjectsV2(vfCtx(), &s3.ListObjectsV2Input{Bucket: vfStr("bkt"), Prefix: vfStr(""), ContinuationToken: vfStr(""),
			Delimiter: vfStr(""), StartAfter: vfStr(""), MaxKeys: &mk})
		if err != nil {
			return "", 0, false
		}
		for _, o := range l.Contents {
			if *o.Key == key {
				return *o.ETag, *o.Size, true
			}
		}
		return "", 0, false
	}
	_, err := a.PutObject(vfCtx(), s3response.PutObjectInput{Bucket: vfStr("bkt"), Key: &key, Body: bytes.NewReader(b1), ContentLength: &cl})
	zzvf.Assert(err == nil, "first-put")
	_, _, _ = list(a) // process A has listed the key (and may remember things about it)
	out2, err := b.PutObject(vfCtx(), s3response.PutObjectInput{Bucket: vfStr("bkt"), Key: &key, Body: bytes.NewReader(b2), ContentLength: &cl})
	zzvf.Assert(err == nil, "second-put")
	if err != nil {
		return
	}
	for i, p := range []*Posix{a, b} {
		_ = i
		g, err := p.GetObject(vfCtx(), &s3.GetObjectInput{Bucket: vfStr("bkt"), Key: &key, Range: vfStr("")})
		zzvf.Assert(err == nil, "get-after-overwrite")
		if err != nil {
			return
		}
		got, _ := io.ReadAll(g.Body)
		zzvf.Assert(zzvf.BytesEq(got, b2), "get-returns-the-latest-upload")
		zzvf.Assert(*g.ETag == out2.ETag, "get-etag-is-the-latest-upload's")
		etag, size, found := list(p)
		zzvf.Assert(found, "listing-shows-the-key")
		zzvf.Assert(zzvf.And(etag == out2.ETag, size == cl), "listing-agrees-with-get-in-every-process")
	}
	zzvf.Reach("checked")
}

// ---- C04: confinement

// hostile path-like values: up to four segments drawn from "..", ".", "" and an ordinary name, optional leading slash
func vfHostile(tag string, maxSeg int) string {
	n := 1 + zzvf.Choice(tag+"$segments", maxSeg)
	s := ""
	if zzvf.Choice(tag+"$leading_slash", 2) == 1 {
		s = "/"
	}
	for i := 0; i < n; i++ {
		if i > 0 {
			s += "/"
		}
		s += []string{"..", ".", "", "x", "other", "secret", "canary", "%2e%2e"}[zzvf.Choice(tag+"$seg", 8)]
	}
	return s
}

func vfHasEncodedDots(s string) bool {
	for i := 0; i+6 <= len(s); i++ {
		if s[i:i+6] == "%2e%2e" {
			return true
		}
	}
	return false
}

func vfHasDotSegment(s string) bool {
	start := 0
	for i := 0; i <= len(s); i++ {
		if i == len(s) || s[i] == '/' {
			seg := s[start:i]
			if seg == ".." || seg == "." {
				return true
			}
			start = i + 1
		}
	}
	return false
}

// vfConfinementWorld: the named bucket "bkt" with one object, a second bucket "other" with a secret, a canary beside the
// gateway root, version stores for both.
func vfConfinementWorld() (p *Posix, protected map[*zzvfos.Inode]string) {
	vfWorld()
	p = vfNewPosix(vfConfig{versioning: true})
	vfMustBucket(p, "bkt")
	vfMustBucket(p, "other")
	one := int64(1)
	k, sk := "x", "secret"
	zzvf.Assert(p.PutBucketVersioning(vfCtx(), "bkt", types.BucketVersioningStatusEnabled) == nil, "setup-versioning")
	p.PutObject(vfCtx(), s3response.PutObjectInput{Bucket: vfStr("bkt"), Key: &k, Body: bytes.NewReader([]byte("W")), ContentLength: &one})
	p.PutObject(vfCtx(), s3response.PutObjectInput{Bucket: vfStr("bkt"), Key: &k, Body: bytes.NewReader([]byte("X")), ContentLength: &one})
	p.PutObject(vfCtx(), s3response.PutObjectInput{Bucket: vfStr("other"), Key: &sk, Body: bytes.NewReader([]byte("S")), ContentLength: &one})
	zzvfos.MkdirAll("/vers/other/v", 0o755)
	zzvfos.WriteFile("/vers/other/v/secret", []byte("V"), 0o644)
	protected = map[*zzvfos.Inode]string{}
	mark := func(path, what string) {
		fi, err := zzvfos.Stat(path)
		if err == nil {
			protected[fi.(interface{ Node() *zzvfos.Inode }).Node()] = what
		}
	}
	mark("/canary", "file beside the gateway root")
	mark("/gw/other", "another bucket")
	mark("/gw/other/secret", "object of another bucket")
	mark("/vers/other", "version store of another bucket")
	mark("/vers/other/v/secret", "version of another bucket")
	zzvfos.M.Log = nil
	return p, protected
}

// VfConfinement: C04 – no client-supplied path-like value makes a posix entry point read, create, change or remove
// anything that belongs to another bucket, another bucket's version store, or lies outside the gateway root.
// vfUp4 leads a hostile version id out of the object's version directory (<versions>/<bucket>/aa/bb/cc/<sha256>/): with one
// or two more ".." segments from the hostile value it reaches the version store of another bucket or the file system root.
const vfUp4 = "../../../../"

func VfConfinement() {
	seg := 3 + zzvf.Tier()
	zzvf.Bound("segments_max", seg)
	p, protected := vfConfinementWorld()
	op := zzvf.Choice("operation", 19)
	h := vfHostile("value", seg)
	zzvf.Assume(vfHasDotSegment(h) || len(h) > 0 && h[0] == '/' || vfHasEncodedDots(h))
	// bucket and key come from the request path, which the URL decoder refuses when it has dot segments (VfDecodeURL);
	// the values below travel in headers and query parameters
	one := int64(1)
	name := ""
	var err error
	k := "x"
	switch op {
	case 0:
		name = "CopyObject source"
		dst := "copy"
		src := "bkt/" + h
		_, err = p.CopyObject(vfCtx(), s3response.CopyObjectInput{Bucket: vfStr("bkt"), Key: &dst, CopySource: &src, ExpectedBucketOwner: vfStr("caller")})
	case 1:
		name = "ListObjectsV2 prefix"
		mk := int32(1 + 9*zzvf.Choice("max_keys_10", 2))
		_, err = p.ListObjectsV2(vfCtx(), &s3.ListObjectsV2Input{Bucket: vfStr("bkt"), Prefix: &h, ContinuationToken: vfStr(""),
			Delimiter: vfStr(""), StartAfter: vfStr(""), MaxKeys: &mk})
	case 2:
		name = "ListObjectsV2 start-after"
		mk := int32(10)
		_, err = p.ListObjectsV2(vfCtx(), &s3.ListObjectsV2Input{Bucket: vfStr("bkt"), Prefix: vfStr(""), ContinuationToken: vfStr(""),
			Delimiter: vfStr(""), StartAfter: &h, MaxKeys: &mk})
	case 3:
		name = "AbortMultipartUpload uploadId"
		id := "../../../" + h
		err = p.AbortMultipartUpload(vfCtx(), &s3.AbortMultipartUploadInput{Bucket: vfStr("bkt"), Key: &k, UploadId: &id})
	case 4:
		name = "UploadPart uploadId"
		id := "../../../" + h
		pn := int32(1)
		_, err = p.UploadPart(vfCtx(), &s3.UploadPartInput{Bucket: vfStr("bkt"), Key: &k, UploadId: &id, PartNumber: &pn,
			Body: bytes.NewReader([]byte("Z")), ContentLength: &one})
	case 5:
		name = "GetObject versionId"
		id := vfUp4 + h
		_, err = p.GetObject(vfCtx(), &s3.GetObjectInput{Bucket: vfStr("bkt"), Key: &k, VersionId: &id, Range: vfStr("")})
	case 6:
		name = "DeleteObject versionId"
		id := vfUp4 + h
		_, err = p.DeleteObject(vfCtx(), &s3.DeleteObjectInput{Bucket: vfStr("bkt"), Key: &k, VersionId: &id})
	case 7:
		name = "HeadObject versionId"
		id := vfUp4 + h
		_, err = p.HeadObject(vfCtx(), &s3.HeadObjectInput{Bucket: vfStr("bkt"), Key: &k, VersionId: &id})
	case 8:
		name = "DeleteObjects key (from the request document)"
		kk := h
		_, err = p.DeleteObjects(vfCtx(), &s3.DeleteObjectsInput{Bucket: vfStr("bkt"), Delete: &types.Delete{Objects: []types.ObjectIdentifier{{Key: &kk}}}})
	case 9:
		name = "DeleteObjects versionId"
		id := vfUp4 + h
		_, err = p.DeleteObjects(vfCtx(), &s3.DeleteObjectsInput{Bucket: vfStr("bkt"), Delete: &types.Delete{Objects: []types.ObjectIdentifier{{Key: &k, VersionId: &id}}}})
	case 10:
		name = "PutObjectRetention versionId"
		err = p.PutObjectRetention(vfCtx(), "bkt", k, vfUp4+h, true, []byte("{}"))
	case 11:
		name = "GetObjectRetention versionId"
		_, err = p.GetObjectRetention(vfCtx(), "bkt", k, vfUp4+h)
	case 12:
		name = "PutObjectLegalHold versionId"
		err = p.PutObjectLegalHold(vfCtx(), "bkt", k, vfUp4+h, true)
	case 13:
		name = "GetObjectLegalHold versionId"
		_, err = p.GetObjectLegalHold(vfCtx(), "bkt", k, vfUp4+h)
	case 14:
		name = "ListParts uploadId"
		id := "../../../" + h
		mp := int32(10)
		_, err = p.ListParts(vfCtx(), &s3.ListPartsInput{Bucket: vfStr("bkt"), Key: &k, UploadId: &id, PartNumberMarker: vfStr(""), MaxParts: &mp})
	case 15:
		name = "CompleteMultipartUpload uploadId"
		id := "../../../" + h
		pn, tag := int32(1), "e"
		_, err = p.CompleteMultipartUpload(vfCtx(), &s3.CompleteMultipartUploadInput{Bucket: vfStr("bkt"), Key: &k, UploadId: &id,
			MultipartUpload: &types.CompletedMultipartUpload{Parts: []types.CompletedPart{{PartNumber: &pn, ETag: &tag}}}})
	case 16:
		name = "UploadPartCopy source"
		up, uerr := p.CreateMultipartUpload(vfCtx(), s3response.CreateMultipartUploadInput{Bucket: vfStr("bkt"), Key: &k})
		zzvf.Assert(uerr == nil, "setup-upload")
		zzvfos.M.Log = nil
		src := "bkt/" + h
		pn := int32(1)
		_, err = p.UploadPartCopy(vfCtx(), &s3.UploadPartCopyInput{Bucket: vfStr("bkt"), Key: &k, UploadId: &up.UploadId, PartNumber: &pn, CopySource: &src,
			CopySourceRange: vfStr(""), ExpectedBucketOwner: vfStr("caller")})
	case 17:
		name = "CopyObject source versionId"
		dst := "copy"
		src := "bkt/x?versionId=" + vfUp4 + h
		_, err = p.CopyObject(vfCtx(), s3response.CopyObjectInput{Bucket: vfStr("bkt"), Key: &dst, CopySource: &src, ExpectedBucketOwner: vfStr("caller")})
	case 18:
		name = "admin ChangeBucketOwner bucket"
		err = p.ChangeBucketOwner(vfCtx(), h, []byte("{}"))
	}
	_ = err
	zzvf.Reach("returned")
	zzvf.Trace("param=" + name)
	for _, a := range zzvfos.M.Log {
		if what, bad := protected[a.Node]; bad && a.Kind != "lookup" {
			zzvf.Trace("touched=" + what + " by " + a.Op + " (" + a.Kind + ")")
			zzvf.Fail("request-stays-inside-its-bucket")
		}
	}
	// a value with dot segments must have been refused as a name, never resolved
	for _, a := range zzvfos.M.Log {
		if what, bad := protected[a.Node]; bad && a.Kind == "lookup" {
			zzvf.Trace("resolved=" + what)
			zzvf.Fail("dot-segments-are-not-resolved")
		}
	}
}

// ---- C08: multipart

func vfPartPath(bucket, key, uploadID string, n int32) string {
	sum := sha256.Sum256([]byte(key))
	return bucket + "/" + metaTmpMultipartDir + "/" + hex.EncodeToString(sum[:]) + "/" + uploadID + "/" + strconv.Itoa(int(n))
}

// vfStorePart puts a part into an upload directly in the model: small literal data plus abstract bulk of symbolic size
// (part sizes around the 5 MiB minimum cannot be uploaded byte by byte).
func vfStorePart(bucket, key, uploadID string, n int32, data []byte, bulk int64, etag string) {
	path := vfPartPath(bucket, key, uploadID, n)
	zzvf.Assert(zzvfos.WriteFile(path, data, 0o644) == nil, "setup-part-file")
	fi, _ := zzvfos.Stat(path)
	node := fi.(interface{ Node() *zzvfos.Inode }).Node()
	node.Bulk = bulk
	node.Xattr["user.etag"] = []byte(etag)
}

// VfMultipartComplete: C08 – one CompleteMultipartUpload from a pre-state with two uploads for the same key, each with
// stored parts of symbolic size and ETag, and a request listing up to three parts with symbolic numbers and ETags.
// Success exactly when numbers are >= 1 and strictly increasing, every ETag equals the stored one and every part but the
// last is at least 5 MiB; then the object is the concatenation of the listed parts with the multipart ETag and the metadata
// given at initiation, the upload is gone and the other upload untouched; otherwise the key is unchanged.
func VfMultipartComplete() {
	vfWorld()
	p := vfNewPosix(vfConfig{})
	vfMustBucket(p, "bkt")
	key := "k"
	existing := zzvf.Choice("key_exists", 2) == 1
	if existing {
		three := int64(3)
		p.PutObject(vfCtx(), s3response.PutObjectInput{Bucket: vfStr("bkt"), Key: &key, Body: bytes.NewReader([]byte("OLD")), ContentLength: &three})
	}
	ctype := "text/x"
	up1, err := p.CreateMultipartUpload(vfCtx(), s3response.CreateMultipartUploadInput{Bucket: vfStr("bkt"), Key: &key, ContentType: &ctype,
		Metadata: map[string]string{"owner": "me"}})
	zzvf.Assert(err == nil, "setup-create-upload-1")
	up2, err := p.CreateMultipartUpload(vfCtx(), s3response.CreateMultipartUploadInput{Bucket: vfStr("bkt"), Key: &key})
	zzvf.Assert(err == nil, "setup-create-upload-2")
	zzvf.Assert(up1.UploadId != up2.UploadId, "upload-ids-distinct")
	// stored parts of upload 1: numbers 1..3, literal first byte + bulk of symbolic size, ETags e1..e3
	nparts := 3
	var sizes []int64
	var etags []string
	for i := 1; i <= nparts; i++ {
		bulk := zzvf.Int64("part_bulk")
		zzvf.Assume(zzvf.And(bulk >= 0, bulk <= 16*1024*1024))
		e := "e" + strconv.Itoa(i)
		vfStorePart("bkt", key, up1.UploadId, int32(i), []byte{byte('A' + i)}, bulk, e)
		sizes = append(sizes, 1+bulk)
		etags = append(etags, e)
	}
	vfStorePart("bkt", key, up2.UploadId, 1, []byte("Q"), 0, "q1")
	_, oldData, oldSize, oldETag := vfObjectState("bkt/k")
	// the request
	nreq := 1 + zzvf.Choice("listed_parts", 3)
	var parts []types.CompletedPart
	valid := true
	var prev int32
	var wantData []byte
	var wantBulk int64
	for i := 0; i < nreq; i++ {
		pn := int32(zzvf.Choice("part_number", 4)) // 0..3
		tag := []string{"e1", "e2", "e3", "wrong"}[zzvf.Choice("etag", 4)]
		t := tag
		n := pn
		parts = append(parts, types.CompletedPart{PartNumber: &n, ETag: &t})
		if pn < 1 || pn <= prev {
			valid = false
		}
		prev = pn
		if pn >= 1 && pn <= 3 {
			if tag != etags[pn-1] {
				valid = false
			}
			wantData = append(wantData, byte('A'+pn))
			wantBulk += sizes[pn-1] - 1
		} else {
			valid = false
		}
	}
	sizeOK := true
	for i := 0; i < nreq-1; i++ {
		pn := *parts[i].PartNumber
		if pn >= 1 && pn <= 3 {
			sizeOK = zzvf.And(sizeOK, sizes[pn-1] >= 5*1024*1024)
		}
	}
	res, err := p.CompleteMultipartUpload(vfCtx(), &s3.CompleteMultipartUploadInput{Bucket: vfStr("bkt"), Key: &key, UploadId: &up1.UploadId,
		MultipartUpload: &types.CompletedMultipartUpload{Parts: parts}})
	exists, data, size, etag := vfObjectState("bkt/k")
	if err == nil {
		zzvf.Reach("completed")
		zzvf.Assert(valid, "completion-requires-valid-numbers-order-and-etags")
		zzvf.Assert(sizeOK, "completion-requires-5MiB-for-every-part-but-the-last")
		zzvf.Assert(exists, "completed-object-exists")
		zzvf.Assert(zzvf.BytesEq(data, wantData), "object-is-the-concatenation-of-the-listed-parts")
		zzvf.Assert(size == int64(len(wantData))+wantBulk, "object-size-is-the-sum-of-the-listed-parts")
		var listed []string
		for _, cp := range parts {
			listed = append(listed, *cp.ETag)
		}
		zzvf.Assert(etag == backendMultipartETag(listed), "object-etag-is-the-multipart-etag")
		zzvf.Assert(res.ETag != nil, "result-has-etag")
		_, serr := zzvfos.Stat("bkt/" + metaTmpMultipartDir + "/" + vfKeyDir(key) + "/" + up1.UploadId)
		zzvf.Assert(serr != nil, "completed-upload-is-gone")
		_, oerr := zzvfos.Stat(vfPartPath("bkt", key, up2.UploadId, 1))
		zzvf.Assert(oerr == nil, "other-upload-untouched")
	} else {
		zzvf.Reach("refused")
		zzvf.Assert(zzvf.Not(zzvf.And(valid, sizeOK)), "valid-completion-is-accepted")
		zzvf.Assert(exists == existing, "refused-completion-keeps-key-presence")
		if existing && exists {
			zzvf.Assert(zzvf.And(size == oldSize, zzvf.BytesEq(data, oldData), etag == oldETag), "refused-completion-keeps-previous-object")
		}
	}
}

func vfKeyDir(key string) string {
	sum := sha256.Sum256([]byte(key))
	return hex.EncodeToString(sum[:])
}

func backendMultipartETag(etags []string) string {
	var parts []types.CompletedPart
	for i := range etags {
		e := etags[i]
		parts = append(parts, types.CompletedPart{ETag: &e})
	}
	return backend.GetMultipartMD5(parts)
}

// VfMultipartProgram: C08 – a short program over two uploads of the same key: upload a part, upload the same number again,
// list parts, then abort or complete one upload. The completed object is the most recent upload of the part, parts and
// uploads never show up as objects, the finished upload's id and parts are gone, the other upload is untouched.
func VfMultipartProgram() {
	vfWorld()
	p := vfNewPosix(vfConfig{})
	vfMustBucket(p, "bkt")
	key := "k"
	up1, err := p.CreateMultipartUpload(vfCtx(), s3response.CreateMultipartUploadInput{Bucket: vfStr("bkt"), Key: &key})
	zzvf.Assert(err == nil, "create-upload-1")
	up2, err := p.CreateMultipartUpload(vfCtx(), s3response.CreateMultipartUploadInput{Bucket: vfStr("bkt"), Key: &key})
	zzvf.Assert(err == nil, "create-upload-2")
	one := int64(1)
	pn := int32(1)
	first, second, other := zzvf.BytesN("first", 1), zzvf.BytesN("second", 1), zzvf.BytesN("other", 1)
	r1, err := p.UploadPart(vfCtx(), &s3.UploadPartInput{Bucket: vfStr("bkt"), Key: &key, UploadId: &up1.UploadId, PartNumber: &pn, Body: bytes.NewReader(first), ContentLength: &one})
	zzvf.Assert(err == nil, "upload-part")
	_, err = p.UploadPart(vfCtx(), &s3.UploadPartInput{Bucket: vfStr("bkt"), Key: &key, UploadId: &up2.UploadId, PartNumber: &pn, Body: bytes.NewReader(other), ContentLength: &one})
	zzvf.Assert(err == nil, "upload-part-other-upload")
	latest, latestETag := first, ""
	if r1 != nil && r1.ETag != nil {
		latestETag = *r1.ETag
	}
	if zzvf.Choice("reupload", 2) == 1 {
		r2, err := p.UploadPart(vfCtx(), &s3.UploadPartInput{Bucket: vfStr("bkt"), Key: &key, UploadId: &up1.UploadId, PartNumber: &pn, Body: bytes.NewReader(second), ContentLength: &one})
		zzvf.Assert(err == nil, "re-upload-part")
		latest = second
		if r2 != nil && r2.ETag != nil {
			latestETag = *r2.ETag
		}
	}
	// parts and uploads are not objects
	mk := int32(100)
	l, err := p.ListObjectsV2(vfCtx(), &s3.ListObjectsV2Input{Bucket: vfStr("bkt"), Prefix: vfStr(""), ContinuationToken: vfStr(""),
		Delimiter: vfStr(""), StartAfter: vfStr(""), MaxKeys: &mk})
	zzvf.Assert(zzvf.And(err == nil, len(l.Contents) == 0, len(l.CommonPrefixes) == 0), "in-progress-uploads-are-not-listed-as-objects")
	lp, err := p.ListParts(vfCtx(), &s3.ListPartsInput{Bucket: vfStr("bkt"), Key: &key, UploadId: &up1.UploadId, MaxParts: &mk, PartNumberMarker: vfStr("")})
	zzvf.Assert(zzvf.And(err == nil, len(lp.Parts) == 1), "list-parts-shows-one-part")
	if err == nil && len(lp.Parts) == 1 {
		zzvf.Assert(zzvf.And(lp.Parts[0].PartNumber == 1, lp.Parts[0].ETag == latestETag, lp.Parts[0].Size == 1), "list-parts-shows-the-latest-upload-of-the-part")
	}
	if zzvf.Choice("finish", 2) == 0 {
		err = p.AbortMultipartUpload(vfCtx(), &s3.AbortMultipartUploadInput{Bucket: vfStr("bkt"), Key: &key, UploadId: &up1.UploadId})
		zzvf.Assert(err == nil, "abort")
		zzvf.Reach("aborted")
		ex, _, _, _ := vfObjectState("bkt/k")
		zzvf.Assert(!ex, "abort-creates-no-object")
	} else {
		_, err = p.CompleteMultipartUpload(vfCtx(), &s3.CompleteMultipartUploadInput{Bucket: vfStr("bkt"), Key: &key, UploadId: &up1.UploadId,
			MultipartUpload: &types.CompletedMultipartUpload{Parts: []types.CompletedPart{{PartNumber: &pn, ETag: &latestETag}}}})
		zzvf.Assert(err == nil, "complete")
		zzvf.Reach("completed")
		ex, data, size, _ := vfObjectState("bkt/k")
		zzvf.Assert(zzvf.And(ex, size == 1), "completed-object-exists")
		zzvf.Assert(zzvf.BytesEq(data, latest), "completed-object-is-the-most-recent-upload-of-the-part")
	}
	// the finished upload is gone, the other one is intact
	_, err = p.ListParts(vfCtx(), &s3.ListPartsInput{Bucket: vfStr("bkt"), Key: &key, UploadId: &up1.UploadId, MaxParts: &mk, PartNumberMarker: vfStr("")})
	zzvf.Assert(err != nil, "finished-upload-id-is-gone")
	lp2, err := p.ListParts(vfCtx(), &s3.ListPartsInput{Bucket: vfStr("bkt"), Key: &key, UploadId: &up2.UploadId, MaxParts: &mk, PartNumberMarker: vfStr("")})
	zzvf.Assert(zzvf.And(err == nil, len(lp2.Parts) == 1), "other-upload-still-has-its-part")
	_, od, _, _ := vfObjectState(vfPartPath("bkt", key, up2.UploadId, 1))
	zzvf.Assert(zzvf.BytesEq(od, other), "other-upload's-part-unchanged")
}

// ---- C09: version history

type vfVersion struct {
	id     string
	data   []byte
	marker bool
}

// VfVersions: C09 – a program of put / delete (marker) / delete-by-id on one key of a versioning-enabled bucket, from an
// absent key or an object that predates versioning; afterwards every version of the reference history is retrievable
// byte-exact under its id, the key reads as the newest version (missing if that is a marker), and ListObjectVersions
// reports exactly the history, newest first, with exactly one latest.
func VfVersions() {
	nops := 2 + zzvf.Tier()
	zzvf.Bound("operations_max", nops)
	vfVersionsBody(1+zzvf.Choice("operations", nops), 6, nil)
}

// VfVersionsSuspend: C09 – the same oracle over programs that switch the bucket between Enabled and Suspended: one
// operation (put / delete / delete newest by id) while enabled, one while suspended, then up to two more while enabled
// again. While suspended a write or delete without id replaces the null version (or marker) and keeps every version
// that has a real id.
func VfVersionsSuspend() {
	status := []bool{true, false, true, true}
	if zzvf.Tier() > 0 {
		// thorough: two operations while suspended, or a second suspension
		if zzvf.Choice("second_suspension", 2) == 1 {
			status = []bool{true, false, true, false, true}
		} else {
			status = []bool{true, false, false, true, true}
		}
	}
	kinds := 3
	if zzvf.Tier() > 0 && zzvf.Choice("all_writer_kinds", 2) == 1 {
		// multipart completion and copy onto the key as well, on the short status vector
		status, kinds = []bool{true, false, true, true}, 5
	}
	n := len(status) - 1 + zzvf.Choice("last_operation", 2)
	zzvf.Bound("operations_max", len(status))
	vfVersionsBody(n, kinds, status)
}

func vfDropNull(hist []vfVersion) []vfVersion {
	var out []vfVersion
	for _, v := range hist {
		if v.id != "null" {
			out = append(out, v)
		}
	}
	return out
}

func vfVersionsBody(n, kinds int, status []bool) {
	vfWorld()
	p := vfNewPosix(vfConfig{versioning: true})
	vfMustBucket(p, "bkt")
	key := "k"
	one := int64(1)
	var hist []vfVersion // oldest first
	if zzvf.Choice("predates_versioning", 2) == 1 {
		b := zzvf.BytesN("null_body", 1)
		_, err := p.PutObject(vfCtx(), s3response.PutObjectInput{Bucket: vfStr("bkt"), Key: &key, Body: bytes.NewReader(b), ContentLength: &one})
		zzvf.Assert(err == nil, "setup-null-version")
		hist = append(hist, vfVersion{id: "null", data: b})
	}
	zzvf.Assert(p.PutBucketVersioning(vfCtx(), "bkt", types.BucketVersioningStatusEnabled) == nil, "setup-enable-versioning")
	enabled := true
	ids := map[string]bool{"null": true}
	for i := 0; i < n; i++ {
		if status != nil && status[i] != enabled {
			enabled = status[i]
			st := types.BucketVersioningStatusSuspended
			if enabled {
				st = types.BucketVersioningStatusEnabled
			}
			zzvf.Assert(p.PutBucketVersioning(vfCtx(), "bkt", st) == nil, "switch-versioning-status")
		}
		switch zzvf.Choice("op", kinds) {
		case 3: // multipart upload (one part of two bytes) onto the key
			b := zzvf.BytesN("mp_body", 2)
			up, err := p.CreateMultipartUpload(vfCtx(), s3response.CreateMultipartUploadInput{Bucket: vfStr("bkt"), Key: &key})
			zzvf.Assert(err == nil, "mp-create")
			two, pn := int64(2), int32(1)
			pr, err := p.UploadPart(vfCtx(), &s3.UploadPartInput{Bucket: vfStr("bkt"), Key: &key, UploadId: &up.UploadId, PartNumber: &pn, Body: bytes.NewReader(b), ContentLength: &two})
			zzvf.Assert(err == nil, "mp-upload-part")
			if err != nil {
				return
			}
			res, err := p.CompleteMultipartUpload(vfCtx(), &s3.CompleteMultipartUploadInput{Bucket: vfStr("bkt"), Key: &key, UploadId: &up.UploadId,
				MultipartUpload: &types.CompletedMultipartUpload{Parts: []types.CompletedPart{{PartNumber: &pn, ETag: pr.ETag}}}})
			zzvf.Assert(err == nil, "mp-complete")
			if err != nil {
				return
			}
			if !enabled {
				hist = append(vfDropNull(hist), vfVersion{id: "null", data: b})
				continue
			}
			zzvf.Assert(zzvf.And(res.VersionId != nil, !ids[*res.VersionId]), "every-write-yields-a-new-distinct-version-id")
			ids[*res.VersionId] = true
			hist = append(hist, vfVersion{id: *res.VersionId, data: b})
		case 4: // copy another object onto the key: a new version
			b := zzvf.BytesN("copied_body", 1)
			src := "src"
			_, err := p.PutObject(vfCtx(), s3response.PutObjectInput{Bucket: vfStr("bkt"), Key: &src, Body: bytes.NewReader(b), ContentLength: &one})
			zzvf.Assert(err == nil, "copy-source-put")
			out, err := p.CopyObject(vfCtx(), s3response.CopyObjectInput{Bucket: vfStr("bkt"), Key: &key, CopySource: vfStr("bkt/src"), ExpectedBucketOwner: vfStr(""),
				MetadataDirective: types.MetadataDirectiveCopy})
			zzvf.Assert(err == nil, "copy-succeeds")
			if err != nil {
				return
			}
			if !enabled {
				hist = append(vfDropNull(hist), vfVersion{id: "null", data: b})
				continue
			}
			zzvf.Assert(zzvf.And(out.VersionId != nil, out.VersionId != nil && !ids[*out.VersionId]), "every-write-yields-a-new-distinct-version-id")
			if out.VersionId == nil {
				return
			}
			ids[*out.VersionId] = true
			hist = append(hist, vfVersion{id: *out.VersionId, data: b})
		case 0: // put
			b := zzvf.BytesN("body", 1)
			out, err := p.PutObject(vfCtx(), s3response.PutObjectInput{Bucket: vfStr("bkt"), Key: &key, Body: bytes.NewReader(b), ContentLength: &one})
			zzvf.Assert(err == nil, "put-succeeds")
			if !enabled {
				// suspended: the write becomes the null version, replacing the previous null version or marker
				hist = append(vfDropNull(hist), vfVersion{id: "null", data: b})
				continue
			}
			zzvf.Assert(zzvf.And(out.VersionID != "", !ids[out.VersionID]), "every-write-yields-a-new-distinct-version-id")
			ids[out.VersionID] = true
			hist = append(hist, vfVersion{id: out.VersionID, data: b})
		case 1: // delete without id: adds a marker
			out, err := p.DeleteObject(vfCtx(), &s3.DeleteObjectInput{Bucket: vfStr("bkt"), Key: &key})
			if len(hist) == 0 {
				continue // deleting a key that never existed: S3 creates a marker too; the gateway may answer either way
			}
			zzvf.Assert(err == nil, "delete-succeeds")
			if !enabled {
				// suspended: a null delete marker replaces the previous null version or marker
				hist = append(vfDropNull(hist), vfVersion{id: "null", marker: true})
				continue
			}
			if err == nil && out != nil && out.VersionId != nil {
				zzvf.Assert(!ids[*out.VersionId], "delete-marker-has-a-new-id")
				ids[*out.VersionId] = true
				hist = append(hist, vfVersion{id: *out.VersionId, marker: true})
			} else {
				zzvf.Fail("delete-without-id-returns-the-marker's-version-id")
				return
			}
		case 5: // delete the oldest version by id: only that entry goes, the key reads as before
			if len(hist) < 2 {
				continue
			}
			first := hist[0]
			_, err := p.DeleteObject(vfCtx(), &s3.DeleteObjectInput{Bucket: vfStr("bkt"), Key: &key, VersionId: &first.id})
			zzvf.Assert(err == nil, "delete-of-an-older-version-by-id-succeeds")
			hist = hist[1:]
		case 2: // delete the newest version by id
			if len(hist) == 0 {
				continue
			}
			last := hist[len(hist)-1]
			_, err := p.DeleteObject(vfCtx(), &s3.DeleteObjectInput{Bucket: vfStr("bkt"), Key: &key, VersionId: &last.id})
			zzvf.Assert(err == nil, "delete-by-id-succeeds")
			hist = hist[:len(hist)-1]
		}
	}
	zzvf.Reach("program-done")
	// every version is retrievable byte-exact under its id
	for _, v := range hist {
		id := v.id
		g, err := p.GetObject(vfCtx(), &s3.GetObjectInput{Bucket: vfStr("bkt"), Key: &key, VersionId: &id, Range: vfStr("")})
		if v.marker {
			zzvf.Assert(err != nil, "get-of-a-delete-marker-is-an-error")
			continue
		}
		zzvf.Assert(err == nil, "every-version-stays-retrievable-by-id")
		if err == nil {
			got, _ := io.ReadAll(g.Body)
			zzvf.Assert(zzvf.BytesEq(got, v.data), "version-content-is-byte-exact")
			h, herr := p.HeadObject(vfCtx(), &s3.HeadObjectInput{Bucket: vfStr("bkt"), Key: &key, VersionId: &id})
			zzvf.Assert(herr == nil, "head-by-version-id-agrees-with-get")
			if herr == nil {
				zzvf.Assert(zzvf.And(h.ETag != nil, g.ETag != nil), "head-and-get-by-id-have-etags")
				if h.ETag != nil && g.ETag != nil {
					zzvf.Assert(*h.ETag == *g.ETag, "head-by-version-id-has-the-version's-etag")
				}
			}
		}
	}
	// the key reads as its newest version
	g, err := p.GetObject(vfCtx(), &s3.GetObjectInput{Bucket: vfStr("bkt"), Key: &key, Range: vfStr("")})
	if len(hist) == 0 || hist[len(hist)-1].marker {
		zzvf.Assert(err != nil, "key-reads-as-missing-after-marker-or-when-empty")
	} else {
		zzvf.Assert(err == nil, "key-reads-as-its-newest-version")
		if err == nil {
			got, _ := io.ReadAll(g.Body)
			zzvf.Assert(zzvf.BytesEq(got, hist[len(hist)-1].data), "newest-version-content")
		}
	}
	// listing
	mk := int32(100)
	lv, err := p.ListObjectVersions(vfCtx(), &s3.ListObjectVersionsInput{Bucket: vfStr("bkt"), Delimiter: vfStr(""), KeyMarker: vfStr(""),
		MaxKeys: &mk, Prefix: vfStr("k"), VersionIdMarker: vfStr("")}) // the prefix keeps the copy source "src" out of the listing
	zzvf.Assert(err == nil, "list-versions-succeeds")
	if err != nil {
		return
	}
	nv, nm := 0, 0
	for _, v := range hist {
		if v.marker {
			nm++
		} else {
			nv++
		}
	}
	zzvf.Assert(zzvf.And(len(lv.Versions) == nv, len(lv.DeleteMarkers) == nm), "list-versions-reports-exactly-the-history")
	latest := 0
	for _, ov := range lv.Versions {
		if ov.IsLatest != nil && *ov.IsLatest {
			latest++
		}
		found := false
		for _, v := range hist {
			if !v.marker && ov.VersionId != nil && *ov.VersionId == v.id {
				found = true
			}
		}
		zzvf.Assert(found, "listed-version-id-is-in-the-history")
	}
	for _, dm := range lv.DeleteMarkers {
		if dm.IsLatest != nil && *dm.IsLatest {
			latest++
		}
	}
	if len(hist) > 0 {
		zzvf.Assert(latest == 1, "exactly-one-entry-is-flagged-latest")
	}
	// newest first among the object versions
	for i := 0; i+1 < len(lv.Versions); i++ {
		a, b := *lv.Versions[i].VersionId, *lv.Versions[i+1].VersionId
		ia, ib := -1, -1
		for j, v := range hist {
			if v.id == a {
				ia = j
			}
			if v.id == b {
				ib = j
			}
		}
		zzvf.Assert(ia > ib, "versions-are-listed-newest-first")
	}
	// paging: following the returned markers page by page yields every version and marker exactly once
	page := int32(1 + zzvf.Choice("page_size_minus_1", 2))
	km, vm := "", ""
	seen := map[string]int{}
	total := 0
	for pages := 0; ; pages++ {
		if pages > len(hist)+2 {
			zzvf.Fail("version-listing-pages-terminate")
			return
		}
		pg, err := p.ListObjectVersions(vfCtx(), &s3.ListObjectVersionsInput{Bucket: vfStr("bkt"), Delimiter: vfStr(""), KeyMarker: &km,
			MaxKeys: &page, Prefix: vfStr("k"), VersionIdMarker: &vm})
		zzvf.Assert(err == nil, "paged-list-versions-succeeds")
		if err != nil {
			return
		}
		zzvf.Assert(len(pg.Versions)+len(pg.DeleteMarkers) <= int(page), "page-not-larger-than-max-keys")
		for _, ov := range pg.Versions {
			seen[*ov.VersionId]++
			total++
		}
		for _, dm := range pg.DeleteMarkers {
			seen[*dm.VersionId]++
			total++
		}
		if pg.IsTruncated == nil || !*pg.IsTruncated {
			break
		}
		zzvf.Assert(pg.NextKeyMarker != nil && pg.NextVersionIdMarker != nil, "truncated-page-has-next-markers")
		if pg.NextKeyMarker == nil || pg.NextVersionIdMarker == nil {
			return
		}
		km, vm = *pg.NextKeyMarker, *pg.NextVersionIdMarker
	}
	zzvf.Reach("paged")
	zzvf.Assert(total == len(hist), "paged-version-listing-reports-every-entry-once")
	for _, v := range hist {
		zzvf.Assert(seen[v.id] == 1, "paged-version-listing-reports-every-entry-once")
	}
}

// ---- C11: crash at every file-system step

// vfConsistent: the key is in a complete state: either absent, or data/size/ETag belong together (ETag = quoted hex MD5 of the data).
func vfKeyState(p *Posix, key string) (present bool, data []byte, etag string, ok bool) {
	g, err := p.GetObject(vfCtx(), &s3.GetObjectInput{Bucket: vfStr("bkt"), Key: &key, Range: vfStr("")})
	if err != nil {
		return false, nil, "", true
	}
	got, rerr := io.ReadAll(g.Body)
	if rerr != nil || g.ETag == nil || g.ContentLength == nil {
		return true, got, "", false
	}
	return true, got, *g.ETag, *g.ContentLength == int64(len(got))
}

func vfQuotedMD5(b []byte) string {
	sum := zzvf.SumMD5(b)
	return "\"" + hex.EncodeToString(sum[:]) + "\""
}

// VfCrash: C11 – the gateway is killed at an arbitrary file-system step of PutObject (new key / overwrite) or DeleteObject;
// a fresh gateway then finds the key in its complete previous or complete new state, temporary data is invisible and
// blocks nothing (re-upload, delete, bucket deletion).
func VfCrash() {
	vfWorld()
	zzvfos.M.OTmpfile = zzvf.Choice("otmpfile_supported", 2) == 1
	cfg := vfConfig{}
	p := vfNewPosix(cfg)
	vfMustBucket(p, "bkt")
	key := "k"
	one := int64(1)
	existing := zzvf.Choice("key_exists", 2) == 1
	oldBody := []byte("O")
	if existing {
		_, err := p.PutObject(vfCtx(), s3response.PutObjectInput{Bucket: vfStr("bkt"), Key: &key, Body: bytes.NewReader(oldBody), ContentLength: &one,
			Metadata: map[string]string{"gen": "old"}})
		zzvf.Assert(err == nil, "setup-old-object")
	}
	op := zzvf.Choice("operation", 3)
	newBody := zzvf.BytesN("new_body", 1)
	var up s3response.InitiateMultipartUploadResult
	var partETag *string
	pn := int32(1)
	if op == 2 {
		var err error
		up, err = p.CreateMultipartUpload(vfCtx(), s3response.CreateMultipartUploadInput{Bucket: vfStr("bkt"), Key: &key})
		zzvf.Assert(err == nil, "setup-create-upload")
		pr, err := p.UploadPart(vfCtx(), &s3.UploadPartInput{Bucket: vfStr("bkt"), Key: &key, UploadId: &up.UploadId, PartNumber: &pn, Body: bytes.NewReader(newBody), ContentLength: &one})
		zzvf.Assert(err == nil, "setup-upload-part")
		if err != nil {
			return
		}
		partETag = pr.ETag
	}
	complete := func(g *Posix) error {
		_, e := g.CompleteMultipartUpload(vfCtx(), &s3.CompleteMultipartUploadInput{Bucket: vfStr("bkt"), Key: &key, UploadId: &up.UploadId,
			MultipartUpload: &types.CompletedMultipartUpload{Parts: []types.CompletedPart{{PartNumber: &pn, ETag: partETag}}}})
		return e
	}
	crashAt := zzvf.Choice("crash_at_step", 60)
	zzvf.Bound("crash_steps_max", 60)
	start := zzvfos.M.Steps
	zzvfos.M.StepHook = func(opname, path string) {
		if zzvfos.M.Steps-start == crashAt+1 {
			zzvf.Trace("crash before " + opname + " " + path)
			zzvf.Abort()
		}
	}
	var opErr error
	crashed := zzvf.CatchAbort(func() {
		if op == 2 {
			opErr = complete(p)
		} else if op == 0 {
			_, opErr = p.PutObject(vfCtx(), s3response.PutObjectInput{Bucket: vfStr("bkt"), Key: &key, Body: bytes.NewReader(newBody), ContentLength: &one,
				Metadata: map[string]string{"gen": "new"}})
		} else {
			_, opErr = p.DeleteObject(vfCtx(), &s3.DeleteObjectInput{Bucket: vfStr("bkt"), Key: &key})
		}
	})
	zzvfos.M.StepHook = nil
	if !crashed {
		zzvf.Assume(zzvfos.M.Steps-start <= crashAt) // crash points beyond the operation's last step: nothing to explore
		zzvf.Reach("completed-without-crash")
		zzvf.Assert(zzvf.Or(opErr == nil, op == 1 && !existing), "operation-succeeds")
	} else {
		zzvf.Reach("crashed")
	}
	// restart
	q := vfNewPosix(cfg)
	present, data, etag, coherent := vfKeyState(q, key)
	zzvf.Assert(coherent, "length-matches-data-after-crash")
	isOld := zzvf.And(present, zzvf.BytesEq(data, oldBody), etag == vfQuotedMD5(oldBody))
	isNew := zzvf.And(present, zzvf.BytesEq(data, newBody), etag == vfQuotedMD5(newBody))
	if op == 2 {
		// multipart completion: the key holds its previous state or the completed object; if it is not completed the upload
		// can still be completed (the acknowledged part is not lost)
		done := zzvf.And(present, zzvf.BytesEq(data, newBody))
		if existing {
			zzvf.Assert(zzvf.Or(isOld, done), "completion-leaves-complete-old-or-complete-new-object")
		} else {
			zzvf.Assert(zzvf.Or(!present, done), "completion-target-is-absent-or-complete")
		}
		if !crashed {
			zzvf.Assert(done, "acknowledged-completion-persists")
		} else if present && !zzvf.BytesEq(data, newBody) || !present {
			zzvf.Assert(complete(q) == nil, "interrupted-completion-can-be-retried")
			p2, d2, _, _ := vfKeyState(q, key)
			zzvf.Assert(zzvf.And(p2, zzvf.BytesEq(d2, newBody)), "retried-completion-yields-the-object")
		}
	} else if op == 0 {
		if existing {
			zzvf.Assert(zzvf.Or(isOld, isNew), "overwrite-leaves-complete-old-or-complete-new-object")
		} else {
			zzvf.Assert(zzvf.Or(!present, isNew), "new-key-is-absent-or-complete")
		}
		if !crashed {
			zzvf.Assert(isNew, "acknowledged-upload-persists")
		}
	} else if existing {
		zzvf.Assert(zzvf.Or(!present, isOld), "delete-leaves-complete-object-or-nothing")
	}
	// leftovers are invisible and block nothing
	mk := int32(100)
	l, err := q.ListObjectsV2(vfCtx(), &s3.ListObjectsV2Input{Bucket: vfStr("bkt"), Prefix: vfStr(""), ContinuationToken: vfStr(""),
		Delimiter: vfStr(""), StartAfter: vfStr(""), MaxKeys: &mk})
	zzvf.Assert(err == nil, "listing-works-after-crash")
	if err == nil {
		for _, o := range l.Contents {
			zzvf.Assert(*o.Key == key, "no-temporary-data-in-listing")
		}
	}
	again := []byte("A")
	_, err = q.PutObject(vfCtx(), s3response.PutObjectInput{Bucket: vfStr("bkt"), Key: &key, Body: bytes.NewReader(again), ContentLength: &one})
	zzvf.Assert(err == nil, "upload-works-after-crash")
	_, err = q.DeleteObject(vfCtx(), &s3.DeleteObjectInput{Bucket: vfStr("bkt"), Key: &key})
	zzvf.Assert(err == nil, "delete-works-after-crash")
	zzvf.Assert(q.DeleteBucket(vfCtx(), "bkt") == nil, "bucket-deletion-works-after-crash")
}

// ---- C05: interleavings on one key

// VfInterleave: C05 – a reader (GET) and a writer (overwriting PUT, or DELETE) on one key of an existing object.
// Schedules explored: one of the two operations runs to completion between two file-system steps of the other, for every
// such position (either nesting direction). Oracle: a successful GET returns the complete body of exactly one write
// together with that write's ETag; a key that exists and is only being overwritten never reads as missing; a GET that
// starts after the overwrite was acknowledged returns the new object.
func VfInterleave() {
	vfWorld()
	zzvfos.M.OTmpfile = zzvf.Choice("otmpfile_supported", 2) == 1
	// the bucket is plain or has versioning enabled (an overwrite then first saves the current version)
	icfg := vfConfig{versioning: zzvf.Choice("versioned_bucket", 2) == 1}
	p := vfNewPosix(icfg)
	q := vfNewPosix(icfg) // the other request may be served by another gateway process
	vfMustBucket(p, "bkt")
	if icfg.versioning {
		zzvf.Assert(p.PutBucketVersioning(vfCtx(), "bkt", types.BucketVersioningStatusEnabled) == nil, "setup-enable-versioning")
	}
	key := "k"
	one := int64(1)
	oldBody := []byte("O")
	_, err := p.PutObject(vfCtx(), s3response.PutObjectInput{Bucket: vfStr("bkt"), Key: &key, Body: bytes.NewReader(oldBody), ContentLength: &one})
	zzvf.Assert(err == nil, "setup-old-object")
	newBody := zzvf.Bytes("new_body", 1)
	newLen := int64(len(newBody))
	writerKind := zzvf.Choice("writer", 5) // 0 PutObject, 1 DeleteObject, 2 CopyObject from another key, 3 CompleteMultipartUpload, 4 CopyObject from a source that was itself a multipart upload
	writerIsDelete := writerKind == 1
	var upID string
	var partTag *string
	pn1 := int32(1)
	switch writerKind {
	case 2:
		src := "src"
		_, err := p.PutObject(vfCtx(), s3response.PutObjectInput{Bucket: vfStr("bkt"), Key: &src, Body: bytes.NewReader(newBody), ContentLength: &newLen})
		zzvf.Assert(err == nil, "setup-copy-source")
	case 4:
		src := "src"
		sup, err := p.CreateMultipartUpload(vfCtx(), s3response.CreateMultipartUploadInput{Bucket: vfStr("bkt"), Key: &src})
		zzvf.Assert(err == nil, "setup-source-upload")
		spr, err := p.UploadPart(vfCtx(), &s3.UploadPartInput{Bucket: vfStr("bkt"), Key: &src, UploadId: &sup.UploadId, PartNumber: &pn1, Body: bytes.NewReader(newBody), ContentLength: &newLen})
		zzvf.Assert(err == nil, "setup-source-part")
		if err != nil {
			return
		}
		_, err = p.CompleteMultipartUpload(vfCtx(), &s3.CompleteMultipartUploadInput{Bucket: vfStr("bkt"), Key: &src, UploadId: &sup.UploadId,
			MultipartUpload: &types.CompletedMultipartUpload{Parts: []types.CompletedPart{{PartNumber: &pn1, ETag: spr.ETag}}}})
		zzvf.Assert(err == nil, "setup-source-complete")
	case 3:
		up, err := p.CreateMultipartUpload(vfCtx(), s3response.CreateMultipartUploadInput{Bucket: vfStr("bkt"), Key: &key})
		zzvf.Assert(err == nil, "setup-upload")
		upID = up.UploadId
		pr, err := p.UploadPart(vfCtx(), &s3.UploadPartInput{Bucket: vfStr("bkt"), Key: &key, UploadId: &upID, PartNumber: &pn1, Body: bytes.NewReader(newBody), ContentLength: &newLen})
		zzvf.Assert(err == nil, "setup-part")
		if err != nil {
			return
		}
		partTag = pr.ETag
	}
	newETag := vfQuotedMD5(newBody)
	if writerKind == 3 && partTag != nil {
		newETag = backendMultipartETag([]string{*partTag})
	}
	writer := func() error {
		switch writerKind {
		case 1:
			_, e := q.DeleteObject(vfCtx(), &s3.DeleteObjectInput{Bucket: vfStr("bkt"), Key: &key})
			return e
		case 2, 4:
			_, e := q.CopyObject(vfCtx(), s3response.CopyObjectInput{Bucket: vfStr("bkt"), Key: &key, CopySource: vfStr("bkt/src"), ExpectedBucketOwner: vfStr(""),
				MetadataDirective: types.MetadataDirectiveCopy})
			return e
		case 3:
			_, e := q.CompleteMultipartUpload(vfCtx(), &s3.CompleteMultipartUploadInput{Bucket: vfStr("bkt"), Key: &key, UploadId: &upID,
				MultipartUpload: &types.CompletedMultipartUpload{Parts: []types.CompletedPart{{PartNumber: &pn1, ETag: partTag}}}})
			return e
		}
		_, e := q.PutObject(vfCtx(), s3response.PutObjectInput{Bucket: vfStr("bkt"), Key: &key, Body: bytes.NewReader(newBody), ContentLength: &newLen})
		return e
	}
	var rPresent, rCoherent bool
	var rData []byte
	var rETag string
	reader := func() { rPresent, rData, rETag, rCoherent = vfKeyState(p, key) }
	nested := zzvf.Choice("nesting", 3) // 0: reader inside the writer, 1: writer inside the reader, 2: a second writer inside the writer
	body2 := []byte("2")
	var w2Err error
	writer2 := func() {
		_, w2Err = p.PutObject(vfCtx(), s3response.PutObjectInput{Bucket: vfStr("bkt"), Key: &key, Body: bytes.NewReader(body2), ContentLength: &one})
	}
	maxSteps := 40
	if icfg.versioning {
		maxSteps = 80 // saving the current version adds steps to every writer
	}
	at := zzvf.Choice("at_step", maxSteps)
	zzvf.Bound("steps_max", 80)
	start := zzvfos.M.Steps
	fired := false
	var wErr error
	zzvfos.M.StepHook = func(opname, path string) {
		if !fired && zzvfos.M.Steps-start == at+1 {
			fired = true
			zzvfos.M.StepHook = nil
			zzvf.Trace("other operation runs before " + opname + " " + path)
			switch nested {
			case 0:
				reader()
			case 1:
				wErr = writer()
			default:
				writer2()
			}
		}
	}
	if nested == 1 {
		reader()
	} else {
		wErr = writer()
	}
	zzvfos.M.StepHook = nil
	zzvf.Assume(fired) // positions beyond the outer operation's last step: nothing to explore
	zzvf.Reach("interleaved")
	zzvf.Assert(wErr == nil, "writer-succeeds")
	if nested == 2 {
		// two writers: both are acknowledged and the key ends up as the complete object of one of them
		zzvf.Assert(w2Err == nil, "second-writer-succeeds")
		present, data, etag, coherent := vfKeyState(p, key)
		if writerIsDelete {
			zzvf.Assert(zzvf.Or(!present, zzvf.And(coherent, zzvf.BytesEq(data, body2), etag == vfQuotedMD5(body2))), "delete-and-put-leave-nothing-or-the-put")
		} else {
			zzvf.Assert(zzvf.And(present, coherent), "two-overwrites-leave-a-complete-object")
			zzvf.Assert(zzvf.Or(zzvf.And(zzvf.BytesEq(data, body2), etag == vfQuotedMD5(body2)), zzvf.And(zzvf.BytesEq(data, newBody), etag == newETag)), "two-overwrites-leave-one-of-the-two-objects")
		}
		return
	}
	isOld := zzvf.And(zzvf.BytesEq(rData, oldBody), rETag == vfQuotedMD5(oldBody))
	isNew := zzvf.And(zzvf.BytesEq(rData, newBody), rETag == newETag)
	if rPresent {
		zzvf.Assert(rCoherent, "get-length-matches-body")
		if writerIsDelete {
			zzvf.Assert(isOld, "get-returns-one-complete-write")
		} else {
			zzvf.Assert(zzvf.Or(isOld, isNew), "get-returns-one-complete-write")
		}
	} else if !writerIsDelete {
		zzvf.Fail("overwritten-key-never-reads-as-missing")
	}
	// a read that starts after the write was acknowledged sees it
	present, data, etag, _ := vfKeyState(p, key)
	if writerIsDelete {
		zzvf.Assert(!present, "read-after-acknowledged-delete-sees-no-object")
	} else {
		zzvf.Assert(zzvf.And(present, zzvf.BytesEq(data, newBody), etag == newETag), "read-after-acknowledged-write-sees-it")
	}
}
