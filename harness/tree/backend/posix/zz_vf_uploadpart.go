package posix

import (
	"bytes"
	"encoding/hex"
	"io"
	"strconv"

	"github.com/aws/aws-sdk-go-v2/service/s3"
	"github.com/aws/aws-sdk-go-v2/service/s3/types"
	"github.com/versity/versitygw/internal/zzvf"
	"github.com/versity/versitygw/internal/zzvfos"
	"github.com/versity/versitygw/s3api/utils"
	"github.com/versity/versitygw/s3response"
)

// VfUploadPartIntegrity: C06 for parts – posix.UploadPart (real code incl. tmpfile, HashReader, io.Copy) with symbolic body
// bytes, an arbitrary declared length, an optional Content-MD5 (hash reader installed the way the route handler does) and an
// optional x-amz-checksum-sha256, for a new part number and for one that already holds a part. Oracle: success implies
// every declared digest matches, declared = received = stored size, stored bytes = received bytes and the returned ETag is
// the MD5 of the bytes; otherwise the part number keeps its previous content.
func VfUploadPartIntegrity() {
	n := 2 + zzvf.Tier()
	zzvf.Bound("body_len_max", n)
	vfWorld()
	zzvfos.M.OTmpfile = zzvf.Choice("otmpfile_supported", 2) == 1
	p := vfNewPosix(vfConfig{})
	vfMustBucket(p, "bkt")
	key := "k"
	up, err := p.CreateMultipartUpload(vfCtx(), s3response.CreateMultipartUploadInput{Bucket: vfStr("bkt"), Key: &key})
	zzvf.Assert(err == nil, "setup-upload")
	pn := int32(1)
	existing := zzvf.Choice("part_exists", 2) == 1
	if existing {
		vfStorePart("bkt", key, up.UploadId, pn, []byte("OLD"), 0, "oldetag")
	}
	path := vfPartPath("bkt", key, up.UploadId, pn)
	_, oldData, oldSize, oldETag := vfObjectState(path)
	body := zzvf.Bytes("body", n)
	declared := zzvf.Int64("declared_length")
	zzvf.Assume(declared >= 0)
	var rdr io.Reader = &vfBodyReader{data: body, eofWithData: zzvf.Choice("eof_with_data", 2) == 1}
	digestsMatch := true
	digest := zzvf.Choice("declared_digest", 3) // 0 none, 1 Content-MD5, 2 x-amz-checksum-sha256 (both at once: outside)
	if digest == 1 {
		sum := zzvf.SumMD5(body)
		actual := utils.Base64SumString(sum[:])
		declaredMD5 := zzvf.StringN("declared_md5", len(actual))
		digestsMatch = zzvf.And(digestsMatch, declaredMD5 == actual)
		hr, err := utils.NewHashReader(rdr, declaredMD5, utils.HashTypeMd5)
		zzvf.Assert(err == nil, "setup-hash-reader")
		rdr = hr
	}
	in := &s3.UploadPartInput{Bucket: vfStr("bkt"), Key: &key, UploadId: &up.UploadId, PartNumber: &pn, Body: rdr, ContentLength: &declared}
	if digest == 2 {
		sum := zzvf.Sum256(body)
		actual := utils.Base64SumString(sum[:])
		declaredSum := zzvf.StringN("declared_sha256", len(actual))
		digestsMatch = zzvf.And(digestsMatch, declaredSum == actual)
		in.ChecksumSHA256 = &declaredSum
	}
	out, err := p.UploadPart(vfCtx(), in)
	exists, data, size, etag := vfObjectState(path)
	if err == nil {
		zzvf.Reach("committed")
		zzvf.Assert(digestsMatch, "commit-implies-declared-digests-match")
		zzvf.Assert(declared == int64(len(body)), "commit-implies-declared-length-equals-received")
		zzvf.Assert(exists, "committed-part-exists")
		zzvf.Assert(size == int64(len(body)), "stored-size-equals-received-bytes")
		zzvf.Assert(zzvf.BytesEq(data, body), "stored-bytes-equal-received-bytes")
		md := zzvf.SumMD5(body)
		want := hex.EncodeToString(md[:])
		zzvf.Assert(out != nil && out.ETag != nil && *out.ETag == want, "returned-etag-is-md5-of-the-bytes")
		zzvf.Assert(etag == want, "stored-etag-is-md5-of-the-bytes")
	} else {
		zzvf.Reach("refused")
		zzvf.Assert(exists == existing, "refused-part-keeps-part-presence")
		if existing && exists {
			zzvf.Assert(zzvf.And(size == oldSize, zzvf.BytesEq(data, oldData), etag == oldETag), "refused-part-keeps-previous-part")
		}
	}
}

// VfUploadPartCopy: C08 – posix.UploadPartCopy (real code) from a source object of 3 symbolic bytes that was stored by
// PutObject or assembled by a multipart upload (ETag of the form "<md5>-1"), whole object or a byte range a-b: the part
// holds exactly the selected source bytes, its returned and stored ETag is the hex MD5 of those bytes (what
// CompleteMultipartUpload later compares and hashes), an unsatisfiable range is refused and leaves no part, and the source
// is unchanged.
func VfUploadPartCopy() {
	vfWorld()
	zzvfos.M.OTmpfile = zzvf.Choice("otmpfile_supported", 2) == 1
	p := vfNewPosix(vfConfig{})
	vfMustBucket(p, "bkt")
	src, key := "src", "k"
	body := zzvf.BytesN("source_body", 3)
	three := int64(3)
	if zzvf.Choice("source_is_multipart", 2) == 1 {
		sup, err := p.CreateMultipartUpload(vfCtx(), s3response.CreateMultipartUploadInput{Bucket: vfStr("bkt"), Key: &src})
		zzvf.Assert(err == nil, "setup-source-upload")
		pn := int32(1)
		spr, err := p.UploadPart(vfCtx(), &s3.UploadPartInput{Bucket: vfStr("bkt"), Key: &src, UploadId: &sup.UploadId, PartNumber: &pn, Body: bytes.NewReader(body), ContentLength: &three})
		zzvf.Assert(err == nil, "setup-source-part")
		if err != nil {
			return
		}
		_, err = p.CompleteMultipartUpload(vfCtx(), &s3.CompleteMultipartUploadInput{Bucket: vfStr("bkt"), Key: &src, UploadId: &sup.UploadId,
			MultipartUpload: &types.CompletedMultipartUpload{Parts: []types.CompletedPart{{PartNumber: &pn, ETag: spr.ETag}}}})
		zzvf.Assert(err == nil, "setup-source-complete")
	} else {
		_, err := p.PutObject(vfCtx(), s3response.PutObjectInput{Bucket: vfStr("bkt"), Key: &src, Body: bytes.NewReader(body), ContentLength: &three})
		zzvf.Assert(err == nil, "setup-source")
	}
	up, err := p.CreateMultipartUpload(vfCtx(), s3response.CreateMultipartUploadInput{Bucket: vfStr("bkt"), Key: &key})
	zzvf.Assert(err == nil, "setup-upload")
	rng := ""
	lo, hi := 0, 2
	valid := true
	if zzvf.Choice("with_range", 2) == 1 {
		lo, hi = zzvf.Choice("first", 4), zzvf.Choice("last", 4)
		rng = "bytes=" + strconv.Itoa(lo) + "-" + strconv.Itoa(hi)
		valid = lo <= hi && hi <= 2
	}
	pn := int32(1)
	out, err := p.UploadPartCopy(vfCtx(), &s3.UploadPartCopyInput{Bucket: vfStr("bkt"), Key: &key, UploadId: &up.UploadId, PartNumber: &pn,
		CopySource: vfStr("bkt/src"), CopySourceRange: &rng, ExpectedBucketOwner: vfStr("")})
	path := vfPartPath("bkt", key, up.UploadId, pn)
	exists, data, size, etag := vfObjectState(path)
	if !valid {
		zzvf.Reach("refused")
		zzvf.Assert(err != nil, "invalid-copy-range-is-refused")
		zzvf.Assert(!exists, "refused-copy-leaves-no-part")
	} else {
		zzvf.Reach("copied")
		zzvf.Assert(err == nil, "valid-copy-succeeds")
		if err != nil {
			return
		}
		want := body[lo : hi+1]
		sum := zzvf.SumMD5(want)
		wantETag := hex.EncodeToString(sum[:])
		zzvf.Assert(exists, "copied-part-exists")
		zzvf.Assert(zzvf.And(size == int64(len(want)), zzvf.BytesEq(data, want)), "part-holds-exactly-the-selected-source-bytes")
		zzvf.Assert(etag == wantETag, "stored-part-etag-is-md5-of-the-copied-bytes")
		zzvf.Assert(out.ETag != nil && (*out.ETag == wantETag || *out.ETag == "\""+wantETag+"\""), "returned-part-etag-is-md5-of-the-copied-bytes")
	}
	_, sdata, _, _ := vfObjectState("bkt/src")
	zzvf.Assert(zzvf.BytesEq(sdata, body), "copy-source-unchanged")
}
