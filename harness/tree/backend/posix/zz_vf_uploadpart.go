package posix

import (
	"encoding/hex"
	"io"

	"github.com/aws/aws-sdk-go-v2/service/s3"
	"github.com/versity/versitygw/internal/zzvf"
	"github.com/versity/versitygw/internal/zzvfos"
	"github.com/versity/versitygw/s3api/utils"
	"github.com/versity/versitygw/s3response"
)

// VfUploadPartIntegrity: C06 for parts – posix.UploadPart (real code incl. tmpfile, HashReader, io.Copy) with symbolic body
// bytes, an arbitrary declared length, an optional Content-MD5 (hash reader installed the way the route handler does) and an
// optional x-amz-checksum-sha256, for a new part number and for one that already holds a part. Oracle: success implies
// every declared digest matches, declared = received = stored size, stored bytes = received bytes and the returned ETag is
// the MD5 of the bytes; otherwise the part number keeps its previous content.
func VfUploadPartIntegrity() {
	n := 2 + zzvf.Tier()
	zzvf.Bound("body_len_max", n)
	vfWorld()
	zzvfos.M.OTmpfile = zzvf.Choice("otmpfile_supported", 2) == 1
	p := vfNewPosix(vfConfig{})
	vfMustBucket(p, "bkt")
	key := "k"
	up, err := p.CreateMultipartUpload(vfCtx(), s3response.CreateMultipartUploadInput{Bucket: vfStr("bkt"), Key: &key})
	zzvf.Assert(err == nil, "setup-upload")
	pn := int32(1)
	existing := zzvf.Choice("part_exists", 2) == 1
	if existing {
		vfStorePart("bkt", key, up.UploadId, pn, []byte("OLD"), 0, "oldetag")
	}
	path := vfPartPath("bkt", key, up.UploadId, pn)
	_, oldData, oldSize, oldETag := vfObjectState(path)
	body := zzvf.Bytes("body", n)
	declared := zzvf.Int64("declared_length")
	zzvf.Assume(declared >= 0)
	var rdr io.Reader = &vfBodyReader{data: body, eofWithData: zzvf.Choice("eof_with_data", 2) == 1}
	digestsMatch := true
	digest := zzvf.Choice("declared_digest", 3) // 0 none, 1 Content-MD5, 2 x-amz-checksum-sha256 (both at once: outside)
	if digest == 1 {
		sum := zzvf.SumMD5(body)
		actual := utils.Base64SumString(sum[:])
		declaredMD5 := zzvf.StringN("declared_md5", len(actual))
		digestsMatch = zzvf.And(digestsMatch, declaredMD5 == actual)
		hr, err := utils.NewHashReader(rdr, declaredMD5, utils.HashTypeMd5)
		zzvf.Assert(err == nil, "setup-hash-reader")
		rdr = hr
	}
	in := &s3.UploadPartInput{Bucket: vfStr("bkt"), Key: &key, UploadId: &up.UploadId, PartNumber: &pn, Body: rdr, ContentLength: &declared}
	if digest == 2 {
		sum := zzvf.Sum256(body)
		actual := utils.Base64SumString(sum[:])
		declaredSum := zzvf.StringN("declared_sha256", len(actual))
		digestsMatch = zzvf.And(digestsMatch, declaredSum == actual)
		in.ChecksumSHA256 = &declaredSum
	}
	out, err := p.UploadPart(vfCtx(), in)
	exists, data, size, etag := vfObjectState(path)
	if err == nil {
		zzvf.Reach("committed")
		zzvf.Assert(digestsMatch, "commit-implies-declared-digests-match")
		zzvf.Assert(declared == int64(len(body)), "commit-implies-declared-length-equals-received")
		zzvf.Assert(exists, "committed-part-exists")
		zzvf.Assert(size == int64(len(body)), "stored-size-equals-received-bytes")
		zzvf.Assert(zzvf.BytesEq(data, body), "stored-bytes-equal-received-bytes")
		md := zzvf.SumMD5(body)
		want := hex.EncodeToString(md[:])
		zzvf.Assert(out != nil && out.ETag != nil && *out.ETag == want, "returned-etag-is-md5-of-the-bytes")
		zzvf.Assert(etag == want, "stored-etag-is-md5-of-the-bytes")
	} else {
		zzvf.Reach("refused")
		zzvf.Assert(exists == existing, "refused-part-keeps-part-presence")
		if existing && exists {
			zzvf.Assert(zzvf.And(size == oldSize, zzvf.BytesEq(data, oldData), etag == oldETag), "refused-part-keeps-previous-part")
		}
	}
}
