package posix

import (
	"bytes"

	"github.com/aws/aws-sdk-go-v2/service/s3"
	"github.com/versity/versitygw/internal/zzvf"
	"github.com/versity/versitygw/s3response"
)

// VfPosixNoCrash: C20 – posix backend entry points that take counts, markers and part numbers from the request, called the
// way the route handlers call them (every pointer the handlers always set is set), on a bucket holding 0..2 objects and up to
// 4 multipart uploads with 0..2 parts: no input makes the backend panic (the engine reports any panic as a violation) and
// every call returns.
func VfPosixNoCrashUploads()  { vfNoCrash(0, 2) }
func VfPosixNoCrashListings() { vfNoCrash(2, 3) }
func VfPosixNoCrashObject()   { vfNoCrash(5, 2) }

func vfNoCrash(firstEP, nEP int) {
	vfWorld()
	cfg := vfConfig{versioning: zzvf.Choice("versioning_dir", 2) == 1}
	p := vfNewPosix(cfg)
	zzvf.Assert(p.CreateBucket(vfCtx(), &s3.CreateBucketInput{Bucket: vfStr("bkt")}, vfACL("caller")) == nil, "setup-create-bucket")
	ctx := vfCtx()
	bkt := "bkt"
	names := []string{"ListParts", "ListMultipartUploads", "ListObjects", "ListObjectsV2", "ListObjectVersions", "GetObjectAttributes", "HeadObject"}
	ep := firstEP + zzvf.Choice("entry_point", nEP)
	zzvf.Trace("entry point: " + names[ep])
	nobj, nup := 0, 0
	if ep >= 2 {
		nobj = zzvf.Choice("objects", 3)
	}
	if ep <= 1 {
		nup = zzvf.Choice("uploads", 5)
	}
	for i := 0; i < nobj; i++ {
		k := []string{"a", "d/b"}[i]
		one := int64(1)
		_, err := p.PutObject(ctx, s3response.PutObjectInput{Bucket: &bkt, Key: &k, Body: bytes.NewReader([]byte("x")), ContentLength: &one})
		zzvf.Assert(err == nil, "setup-object")
	}
	zzvf.Bound("uploads_max", 4)
	var ids []string
	upKeys := []string{"a", "a", "b", "c"}
	for i := 0; i < nup; i++ {
		k := upKeys[i]
		up, err := p.CreateMultipartUpload(ctx, s3response.CreateMultipartUploadInput{Bucket: &bkt, Key: &k})
		zzvf.Assert(err == nil, "setup-upload")
		ids = append(ids, up.UploadId)
	}
	nparts := 0
	if nup > 0 && ep == 0 {
		nparts = zzvf.Choice("parts_of_first_upload", 3)
		for i := 1; i <= nparts; i++ {
			vfStorePart("bkt", "a", ids[0], int32(i), []byte("P"), 0, "e")
		}
	}
	small := func(name string) int32 { return int32(zzvf.Choice(name, 4)) } // 0..3
	marker := func(name string) string { return []string{"", "a", "d/"}[zzvf.Choice(name, 3)] }
	delim := func() string { return []string{"", "/"}[zzvf.Choice("delimiter", 2)] }
	switch ep {
	case 0:
		key, id := "a", "nosuchupload"
		if nup > 0 {
			id = ids[0]
		}
		max, pm := small("max_parts"), []string{"", "0", "1", "5"}[zzvf.Choice("part_number_marker", 4)]
		_, _ = p.ListParts(ctx, &s3.ListPartsInput{Bucket: &bkt, Key: &key, UploadId: &id, PartNumberMarker: &pm, MaxParts: &max})
	case 1:
		max, km, d, pre := small("max_uploads"), []string{"", "a", "b", "c"}[zzvf.Choice("key_marker", 4)], delim(), []string{"", "a"}[zzvf.Choice("prefix", 2)]
		um := ""
		if nup > 0 && zzvf.Choice("upload_id_marker_given", 2) == 1 {
			um = ids[zzvf.Choice("upload_id_marker", nup)]
		}
		_, _ = p.ListMultipartUploads(ctx, &s3.ListMultipartUploadsInput{Bucket: &bkt, Delimiter: &d, Prefix: &pre, UploadIdMarker: &um, MaxUploads: &max, KeyMarker: &km})
	case 2:
		max, m, d, pre := small("max_keys"), marker("marker"), delim(), marker("prefix")
		_, _ = p.ListObjects(ctx, &s3.ListObjectsInput{Bucket: &bkt, Prefix: &pre, Marker: &m, Delimiter: &d, MaxKeys: &max})
	case 3:
		max, m, d, pre, sa := small("max_keys"), marker("continuation_token"), delim(), marker("prefix"), marker("start_after")
		fo := false
		_, _ = p.ListObjectsV2(ctx, &s3.ListObjectsV2Input{Bucket: &bkt, Prefix: &pre, ContinuationToken: &m, Delimiter: &d, MaxKeys: &max, StartAfter: &sa, FetchOwner: &fo})
	case 4:
		max, km, d, pre, vm := small("max_keys"), marker("key_marker"), delim(), marker("prefix"), marker("version_id_marker")
		_, _ = p.ListObjectVersions(ctx, &s3.ListObjectVersionsInput{Bucket: &bkt, Delimiter: &d, KeyMarker: &km, MaxKeys: &max, Prefix: &pre, VersionIdMarker: &vm})
	case 5:
		key, pm, max, vid := "a", []string{"", "0", "1"}[zzvf.Choice("part_number_marker", 3)], small("max_parts"), ""
		_, _ = p.GetObjectAttributes(ctx, &s3.GetObjectAttributesInput{Bucket: &bkt, Key: &key, PartNumberMarker: &pm, MaxParts: &max, VersionId: &vid})
	case 6:
		key, vid := "a", ""
		var pn *int32
		if zzvf.Choice("part_number_given", 2) == 1 {
			n := small("part_number")
			pn = &n
		}
		_, _ = p.HeadObject(ctx, &s3.HeadObjectInput{Bucket: &bkt, Key: &key, PartNumber: pn, VersionId: &vid})
	}
	zzvf.Reach("returned")
}
