// Package sym implements the term language sent to the SMT solver:
// Booleans and fixed-width bit-vectors (two's complement, Go widths).
// Constructors fold constants, so concrete execution never reaches the solver.
package sym

import (
	"fmt"
	"strings"
	"sync/atomic"
)

type Op uint8

const (
	OpConst Op = iota
	OpVar
	OpNot
	OpAnd
	OpOr
	OpIte
	OpEq
	OpAdd
	OpSub
	OpMul
	OpUDiv
	OpURem
	OpSDiv
	OpSRem
	OpBAnd
	OpBOr
	OpBXor
	OpShl
	OpLShr
	OpAShr
	OpULt
	OpULe
	OpSLt
	OpSLe
	OpExtract // C = hi<<8 | lo
	OpZeroExt // to width W
	OpSignExt // to width W
	OpConcat
	OpBNot
	OpNeg
)

var opNames = map[Op]string{
	OpNot: "not", OpAnd: "and", OpOr: "or", OpIte: "ite", OpEq: "=",
	OpAdd: "bvadd", OpSub: "bvsub", OpMul: "bvmul", OpUDiv: "bvudiv", OpURem: "bvurem",
	OpSDiv: "bvsdiv", OpSRem: "bvsrem", OpBAnd: "bvand", OpBOr: "bvor", OpBXor: "bvxor",
	OpShl: "bvshl", OpLShr: "bvlshr", OpAShr: "bvashr", OpULt: "bvult", OpULe: "bvule",
	OpSLt: "bvslt", OpSLe: "bvsle", OpConcat: "concat", OpBNot: "bvnot", OpNeg: "bvneg",
}

// Term is an immutable node. W==0 means sort Bool, otherwise BitVec W (1..64).
type Term struct {
	Op   Op
	W    uint8
	C    uint64 // constant value (masked), or extract bounds
	A    []*Term
	Name string
	ID   int64 // unique for non-constant terms
}

var idCounter int64

func newID() int64 { return atomic.AddInt64(&idCounter, 1) }

func mask(w uint8) uint64 {
	if w >= 64 {
		return ^uint64(0)
	}
	return (uint64(1) << w) - 1
}

var (
	True  = &Term{Op: OpConst, W: 0, C: 1}
	False = &Term{Op: OpConst, W: 0, C: 0}
)

var smallConsts [65][]*Term

func init() {
	for _, w := range []uint8{8, 16, 32, 64} {
		n := 256
		smallConsts[w] = make([]*Term, n)
		for i := 0; i < n; i++ {
			smallConsts[w][i] = &Term{Op: OpConst, W: w, C: uint64(i)}
		}
	}
}

func Bool(b bool) *Term {
	if b {
		return True
	}
	return False
}

// Const returns the BV constant v (truncated) of width w.
func Const(w uint8, v uint64) *Term {
	if w == 0 {
		return Bool(v&1 == 1)
	}
	v &= mask(w)
	if v < 256 {
		if t := smallConsts[w]; t != nil {
			return t[v]
		}
	}
	return &Term{Op: OpConst, W: w, C: v}
}

func Byte(b byte) *Term { return smallConsts[8][b] }

func Var(name string, w uint8) *Term {
	return &Term{Op: OpVar, W: w, Name: name, ID: newID()}
}

func (t *Term) IsConst() bool { return t.Op == OpConst }
func (t *Term) IsTrue() bool  { return t.Op == OpConst && t.W == 0 && t.C == 1 }
func (t *Term) IsFalse() bool { return t.Op == OpConst && t.W == 0 && t.C == 0 }

// Signed returns the constant interpreted as a signed integer.
func (t *Term) Signed() int64 { return signed(t.C, t.W) }

func signed(v uint64, w uint8) int64 {
	if w >= 64 {
		return int64(v)
	}
	if v&(uint64(1)<<(w-1)) != 0 {
		return int64(v | ^mask(w))
	}
	return int64(v)
}

func mk(op Op, w uint8, a ...*Term) *Term {
	return &Term{Op: op, W: w, A: a, ID: newID()}
}

func Not(a *Term) *Term {
	if a.Op == OpConst {
		return Bool(a.C == 0)
	}
	if a.Op == OpNot {
		return a.A[0]
	}
	return mk(OpNot, 0, a)
}

func And(a, b *Term) *Term {
	if a.Op == OpConst {
		if a.C == 0 {
			return False
		}
		return b
	}
	if b.Op == OpConst {
		if b.C == 0 {
			return False
		}
		return a
	}
	if a == b {
		return a
	}
	return mk(OpAnd, 0, a, b)
}

func Or(a, b *Term) *Term {
	if a.Op == OpConst {
		if a.C == 1 {
			return True
		}
		return b
	}
	if b.Op == OpConst {
		if b.C == 1 {
			return True
		}
		return a
	}
	if a == b {
		return a
	}
	return mk(OpOr, 0, a, b)
}

func Implies(a, b *Term) *Term { return Or(Not(a), b) }

func Ite(c, a, b *Term) *Term {
	if c.Op == OpConst {
		if c.C == 1 {
			return a
		}
		return b
	}
	if a == b {
		return a
	}
	if a.Op == OpConst && b.Op == OpConst && a.W == b.W && a.C == b.C {
		return a
	}
	if a.W == 0 {
		if a.IsTrue() && b.IsFalse() {
			return c
		}
		if a.IsFalse() && b.IsTrue() {
			return Not(c)
		}
	}
	return mk(OpIte, a.W, c, a, b)
}

// constSet returns the set of constants an ite-tree of constants can take (nil if not such a tree or too big).
func constSet(t *Term, lim int) []uint64 {
	var out []uint64
	var rec func(t *Term) bool
	rec = func(t *Term) bool {
		if t.Op == OpConst {
			for _, v := range out {
				if v == t.C {
					return true
				}
			}
			out = append(out, t.C)
			return len(out) <= lim
		}
		if t.Op == OpIte {
			return rec(t.A[1]) && rec(t.A[2])
		}
		return false
	}
	if !rec(t) {
		return nil
	}
	return out
}

func Eq(a, b *Term) *Term {
	if a.W != b.W {
		panic(fmt.Sprintf("sym.Eq: width mismatch %d vs %d", a.W, b.W))
	}
	if a.Op == OpConst && b.Op == OpConst {
		return Bool(a.C == b.C)
	}
	if a == b {
		return True
	}
	if a.Op == b.Op && a.Op != OpConst {
		budget := 20000
		if structEq(a, b, map[[2]int64]bool{}, &budget) {
			return True
		}
	}
	if a.W == 0 {
		if a.Op == OpConst {
			if a.C == 1 {
				return b
			}
			return Not(b)
		}
		if b.Op == OpConst {
			if b.C == 1 {
				return a
			}
			return Not(a)
		}
	}
	// ite-of-constants vs constant: decide without the solver when impossible
	if b.Op == OpConst && a.Op == OpIte {
		a, b = b, a
	}
	if a.Op == OpConst && b.Op == OpIte {
		if cs := constSet(b, 80); cs != nil {
			found := false
			for _, v := range cs {
				if v == a.C {
					found = true
				}
			}
			if !found {
				return False
			}
		}
		// push the comparison into the branches when they are constants
		if b.A[1].Op == OpConst || b.A[2].Op == OpConst {
			return Ite(b.A[0], Eq(a, b.A[1]), Eq(a, b.A[2]))
		}
	}
	// two look-ups in the same injective constant table (hex digits, base64 alphabet): compare the indices
	if a.Op == OpIte && b.Op == OpIte {
		if ia, ka, va, ok := tableOf(a); ok {
			if ib, kb, vb, ok2 := tableOf(b); ok2 && len(ka) == len(kb) && ia.W == ib.W {
				same := true
				for i := range ka {
					if ka[i] != kb[i] || va[i] != vb[i] {
						same = false
						break
					}
				}
				if same && distinctVals(va) && umax(ia, 0) < uint64(len(ka)) && umax(ib, 0) < uint64(len(kb)) {
					return Eq(ia, ib)
				}
			}
		}
	}
	// zero-extended value vs constant that does not fit
	if a.Op == OpConst && b.Op == OpZeroExt {
		iw := b.A[0].W
		if a.C > mask(iw) {
			return False
		}
		return Eq(Const(iw, a.C), b.A[0])
	}
	if b.Op == OpConst && a.Op == OpZeroExt {
		return Eq(b, a)
	}
	return mk(OpEq, 0, a, b)
}

func Ne(a, b *Term) *Term { return Not(Eq(a, b)) }

// tableOf recognises ite(idx==0,c0, ite(idx==1,c1, … c_last)) – a constant table indexed by idx (keys 0..n-1 in order).
func tableOf(t *Term) (idx *Term, keys, vals []uint64, ok bool) {
	for t.Op == OpIte {
		c := t.A[0]
		if c.Op != OpEq {
			return nil, nil, nil, false
		}
		x, k := c.A[0], c.A[1]
		if x.Op == OpConst {
			x, k = k, x
		}
		if k.Op != OpConst || t.A[1].Op != OpConst {
			return nil, nil, nil, false
		}
		if idx == nil {
			idx = x
		} else if idx != x {
			return nil, nil, nil, false
		}
		if k.C != uint64(len(keys)) {
			return nil, nil, nil, false
		}
		keys = append(keys, k.C)
		vals = append(vals, t.A[1].C)
		t = t.A[2]
		if len(keys) > 300 {
			return nil, nil, nil, false
		}
	}
	if t.Op != OpConst || idx == nil {
		return nil, nil, nil, false
	}
	keys = append(keys, uint64(len(keys)))
	vals = append(vals, t.C)
	return idx, keys, vals, true
}

func distinctVals(v []uint64) bool {
	seen := map[uint64]bool{}
	for _, x := range v {
		if seen[x] {
			return false
		}
		seen[x] = true
	}
	return true
}

// structEq: are two term DAGs syntactically identical (same variables by name)? Bounded; false when unsure.
func structEq(a, b *Term, memo map[[2]int64]bool, budget *int) bool {
	if a == b {
		return true
	}
	if a.Op != b.Op || a.W != b.W || len(a.A) != len(b.A) {
		return false
	}
	switch a.Op {
	case OpConst:
		return a.C == b.C
	case OpVar:
		return a.Name == b.Name
	}
	if a.C != b.C {
		return false
	}
	k := [2]int64{a.ID, b.ID}
	if v, ok := memo[k]; ok {
		return v
	}
	*budget--
	if *budget <= 0 {
		return false
	}
	r := true
	for i := range a.A {
		if !structEq(a.A[i], b.A[i], memo, budget) {
			r = false
			break
		}
	}
	memo[k] = r
	return r
}

// UMax is a cheap upper bound of the unsigned value of t.
func UMax(t *Term) uint64 {
	return umax(t, 0)
}

func umax(t *Term, depth int) uint64 {
	full := mask(t.W)
	if t.W == 0 {
		return 1
	}
	if depth > 12 {
		return full
	}
	switch t.Op {
	case OpConst:
		return t.C
	case OpZeroExt:
		return umax(t.A[0], depth+1)
	case OpBAnd:
		x, y := umax(t.A[0], depth+1), umax(t.A[1], depth+1)
		if x < y {
			return x
		}
		return y
	case OpBOr, OpBXor:
		x, y := umax(t.A[0], depth+1), umax(t.A[1], depth+1)
		m := x | y
		// round up to all-ones below the top bit
		for i := uint(1); i < 64; i <<= 1 {
			m |= m >> i
		}
		return m & full
	case OpLShr:
		if t.A[1].Op == OpConst {
			if t.A[1].C >= uint64(t.W) {
				return 0
			}
			return umax(t.A[0], depth+1) >> t.A[1].C
		}
		return umax(t.A[0], depth+1)
	case OpURem:
		if t.A[1].Op == OpConst && t.A[1].C > 0 {
			return t.A[1].C - 1
		}
	case OpUDiv:
		if t.A[1].Op == OpConst && t.A[1].C > 0 {
			return umax(t.A[0], depth+1) / t.A[1].C
		}
	case OpIte:
		x, y := umax(t.A[1], depth+1), umax(t.A[2], depth+1)
		if x > y {
			return x
		}
		return y
	case OpExtract:
		hi, lo := uint8(t.C>>8), uint8(t.C&0xff)
		m := umax(t.A[0], depth+1) >> lo
		if fm := mask(hi - lo + 1); m > fm {
			return fm
		}
		return m
	case OpAdd:
		x, y := umax(t.A[0], depth+1), umax(t.A[1], depth+1)
		if x+y >= x && x+y <= full {
			return x + y
		}
	case OpShl:
		if t.A[1].Op == OpConst && t.A[1].C < 64 {
			x := umax(t.A[0], depth+1)
			if x<<t.A[1].C>>t.A[1].C == x && x<<t.A[1].C <= full {
				return x << t.A[1].C
			}
		}
	case OpMul:
		if t.A[1].Op == OpConst || t.A[0].Op == OpConst {
			x, y := umax(t.A[0], depth+1), umax(t.A[1], depth+1)
			if x == 0 || y == 0 {
				return 0
			}
			if p := x * y; p/y == x && p <= full {
				return p
			}
		}
	}
	return full
}

func bin(op Op, a, b *Term) *Term {
	if a.W != b.W {
		panic(fmt.Sprintf("sym.%s: width mismatch %d vs %d", opNames[op], a.W, b.W))
	}
	w := a.W
	if a.Op == OpConst && b.Op == OpConst {
		x, y := a.C, b.C
		m := mask(w)
		switch op {
		case OpAdd:
			return Const(w, x+y)
		case OpSub:
			return Const(w, x-y)
		case OpMul:
			return Const(w, x*y)
		case OpUDiv:
			if y == 0 {
				return Const(w, m)
			}
			return Const(w, x/y)
		case OpURem:
			if y == 0 {
				return Const(w, x)
			}
			return Const(w, x%y)
		case OpSDiv:
			sx, sy := signed(x, w), signed(y, w)
			if sy == 0 {
				if sx < 0 {
					return Const(w, 1)
				}
				return Const(w, m)
			}
			if sy == -1 {
				return Const(w, uint64(-sx))
			}
			return Const(w, uint64(sx/sy))
		case OpSRem:
			sx, sy := signed(x, w), signed(y, w)
			if sy == 0 {
				return Const(w, x)
			}
			if sy == -1 {
				return Const(w, 0)
			}
			return Const(w, uint64(sx%sy))
		case OpBAnd:
			return Const(w, x&y)
		case OpBOr:
			return Const(w, x|y)
		case OpBXor:
			return Const(w, x^y)
		case OpShl:
			if y >= uint64(w) {
				return Const(w, 0)
			}
			return Const(w, x<<y)
		case OpLShr:
			if y >= uint64(w) {
				return Const(w, 0)
			}
			return Const(w, x>>y)
		case OpAShr:
			sx := signed(x, w)
			if y >= uint64(w) {
				if sx < 0 {
					return Const(w, m)
				}
				return Const(w, 0)
			}
			return Const(w, uint64(sx>>y))
		case OpULt:
			return Bool(x < y)
		case OpULe:
			return Bool(x <= y)
		case OpSLt:
			return Bool(signed(x, w) < signed(y, w))
		case OpSLe:
			return Bool(signed(x, w) <= signed(y, w))
		}
	}
	// light algebraic identities
	switch op {
	case OpAdd:
		if a.Op == OpConst && a.C == 0 {
			return b
		}
		if b.Op == OpConst && b.C == 0 {
			return a
		}
	case OpSub:
		if b.Op == OpConst && b.C == 0 {
			return a
		}
		if a == b {
			return Const(w, 0)
		}
	case OpMul:
		if a.Op == OpConst && a.C == 1 {
			return b
		}
		if b.Op == OpConst && b.C == 1 {
			return a
		}
		if (a.Op == OpConst && a.C == 0) || (b.Op == OpConst && b.C == 0) {
			return Const(w, 0)
		}
	case OpBAnd:
		if (a.Op == OpConst && a.C == 0) || (b.Op == OpConst && b.C == 0) {
			return Const(w, 0)
		}
		if a.Op == OpConst && a.C == mask(w) {
			return b
		}
		if b.Op == OpConst && b.C == mask(w) {
			return a
		}
	case OpBOr, OpBXor:
		if a.Op == OpConst && a.C == 0 {
			return b
		}
		if b.Op == OpConst && b.C == 0 {
			return a
		}
	case OpShl, OpLShr, OpAShr:
		if b.Op == OpConst && b.C == 0 {
			return a
		}
	case OpULt:
		if a == b {
			return False
		}
		if b.Op == OpConst && b.C == 0 {
			return False
		}
		if b.Op == OpConst && a.Op != OpConst && umax(a, 0) < b.C {
			return True
		}
		if a.Op == OpConst && b.Op != OpConst && umax(b, 0) <= a.C {
			return False
		}
	case OpULe:
		if a == b {
			return True
		}
		if a.Op == OpConst && a.C == 0 {
			return True
		}
		if b.Op == OpConst && a.Op != OpConst && umax(a, 0) <= b.C {
			return True
		}
		if a.Op == OpConst && b.Op != OpConst && umax(b, 0) < a.C {
			return False
		}
	case OpSLt, OpSLe:
		// both sides provably non-negative: same as unsigned
		if w > 1 {
			top := uint64(1) << (w - 1)
			if umax(a, 0) < top && umax(b, 0) < top {
				if op == OpSLt {
					return bin(OpULt, a, b)
				}
				return bin(OpULe, a, b)
			}
		}
	}
	if op == OpSLt && a == b {
		return False
	}
	if op == OpSLe && a == b {
		return True
	}
	// comparisons of zero-extended narrow values with constants (bytes widened to int)
	switch op {
	case OpULt, OpULe, OpSLt, OpSLe:
		if a.Op == OpZeroExt && b.Op == OpConst && a.A[0].W < w {
			iw := a.A[0].W
			sb := signed(b.C, w)
			if (op == OpSLt || op == OpSLe) && sb < 0 {
				return False
			}
			if b.C > mask(iw) {
				return True
			}
			nop := op
			if op == OpSLt {
				nop = OpULt
			} else if op == OpSLe {
				nop = OpULe
			}
			return bin(nop, a.A[0], Const(iw, b.C))
		}
		if b.Op == OpZeroExt && a.Op == OpConst && b.A[0].W < w {
			iw := b.A[0].W
			sa := signed(a.C, w)
			if (op == OpSLt || op == OpSLe) && sa < 0 {
				return True
			}
			if a.C > mask(iw) {
				return False
			}
			nop := op
			if op == OpSLt {
				nop = OpULt
			} else if op == OpSLe {
				nop = OpULe
			}
			return bin(nop, Const(iw, a.C), b.A[0])
		}
	}
	rw := w
	switch op {
	case OpULt, OpULe, OpSLt, OpSLe:
		rw = 0
	}
	return mk(op, rw, a, b)
}

func Add(a, b *Term) *Term  { return bin(OpAdd, a, b) }
func Sub(a, b *Term) *Term  { return bin(OpSub, a, b) }
func Mul(a, b *Term) *Term  { return bin(OpMul, a, b) }
func UDiv(a, b *Term) *Term { return bin(OpUDiv, a, b) }
func URem(a, b *Term) *Term { return bin(OpURem, a, b) }
func SDiv(a, b *Term) *Term { return bin(OpSDiv, a, b) }
func SRem(a, b *Term) *Term { return bin(OpSRem, a, b) }
func BAnd(a, b *Term) *Term { return bin(OpBAnd, a, b) }
func BOr(a, b *Term) *Term  { return bin(OpBOr, a, b) }
func BXor(a, b *Term) *Term { return bin(OpBXor, a, b) }
func Shl(a, b *Term) *Term  { return bin(OpShl, a, b) }
func LShr(a, b *Term) *Term { return bin(OpLShr, a, b) }
func AShr(a, b *Term) *Term { return bin(OpAShr, a, b) }
func ULt(a, b *Term) *Term  { return bin(OpULt, a, b) }
func ULe(a, b *Term) *Term  { return bin(OpULe, a, b) }
func SLt(a, b *Term) *Term  { return bin(OpSLt, a, b) }
func SLe(a, b *Term) *Term  { return bin(OpSLe, a, b) }

func BNot(a *Term) *Term {
	if a.Op == OpConst {
		return Const(a.W, ^a.C)
	}
	return mk(OpBNot, a.W, a)
}

func Neg(a *Term) *Term {
	if a.Op == OpConst {
		return Const(a.W, -a.C)
	}
	return mk(OpNeg, a.W, a)
}

func Extract(a *Term, hi, lo uint8) *Term {
	w := hi - lo + 1
	if a.Op == OpConst {
		return Const(w, a.C>>lo)
	}
	if lo == 0 && w == a.W {
		return a
	}
	if (a.Op == OpZeroExt || a.Op == OpSignExt) && lo == 0 && w <= a.A[0].W {
		return Extract(a.A[0], hi, 0)
	}
	t := mk(OpExtract, w, a)
	t.C = uint64(hi)<<8 | uint64(lo)
	return t
}

func ZeroExt(a *Term, w uint8) *Term {
	if w == a.W {
		return a
	}
	if w < a.W {
		return Extract(a, w-1, 0)
	}
	if a.Op == OpConst {
		return Const(w, a.C)
	}
	if a.Op == OpZeroExt {
		return ZeroExt(a.A[0], w)
	}
	if a.Op == OpIte && (a.A[1].Op == OpConst || a.A[2].Op == OpConst) {
		return Ite(a.A[0], ZeroExt(a.A[1], w), ZeroExt(a.A[2], w))
	}
	return mk(OpZeroExt, w, a)
}

func SignExt(a *Term, w uint8) *Term {
	if w == a.W {
		return a
	}
	if w < a.W {
		return Extract(a, w-1, 0)
	}
	if a.Op == OpConst {
		return Const(w, uint64(signed(a.C, a.W)))
	}
	return mk(OpSignExt, w, a)
}

func Concat(hi, lo *Term) *Term {
	w := hi.W + lo.W
	if hi.Op == OpConst && lo.Op == OpConst {
		return Const(w, hi.C<<lo.W|lo.C)
	}
	return mk(OpConcat, w, hi, lo)
}

// ---------------------------------------------------------------- printing

func SortString(w uint8) string {
	if w == 0 {
		return "Bool"
	}
	return fmt.Sprintf("(_ BitVec %d)", w)
}

func constString(t *Term) string {
	if t.W == 0 {
		if t.C == 1 {
			return "true"
		}
		return "false"
	}
	if t.W%4 == 0 {
		return fmt.Sprintf("#x%0*x", int(t.W/4), t.C)
	}
	return fmt.Sprintf("#b%0*b", int(t.W), t.C)
}

// Ref is how a term is referred to inside another term's definition.
func (t *Term) Ref() string {
	switch t.Op {
	case OpConst:
		return constString(t)
	case OpVar:
		return "|" + t.Name + "|"
	}
	return fmt.Sprintf("t%d", t.ID)
}

// Body is the one-level SMT-LIB expansion of t (children by reference).
func (t *Term) Body() string {
	switch t.Op {
	case OpConst, OpVar:
		return t.Ref()
	case OpExtract:
		return fmt.Sprintf("((_ extract %d %d) %s)", t.C>>8, t.C&0xff, t.A[0].Ref())
	case OpZeroExt:
		return fmt.Sprintf("((_ zero_extend %d) %s)", t.W-t.A[0].W, t.A[0].Ref())
	case OpSignExt:
		return fmt.Sprintf("((_ sign_extend %d) %s)", t.W-t.A[0].W, t.A[0].Ref())
	}
	var sb strings.Builder
	sb.WriteByte('(')
	sb.WriteString(opNames[t.Op])
	for _, a := range t.A {
		sb.WriteByte(' ')
		sb.WriteString(a.Ref())
	}
	sb.WriteByte(')')
	return sb.String()
}

// String renders the full term (for diagnostics; may be exponential on DAGs, so it is depth-limited).
func (t *Term) String() string { return t.str(6) }

func (t *Term) str(d int) string {
	switch t.Op {
	case OpConst:
		if t.W == 0 {
			return constString(t)
		}
		return fmt.Sprintf("%d", signed(t.C, t.W))
	case OpVar:
		return t.Name
	}
	if d == 0 {
		return "…"
	}
	var sb strings.Builder
	sb.WriteByte('(')
	switch t.Op {
	case OpExtract:
		fmt.Fprintf(&sb, "extract[%d:%d]", t.C>>8, t.C&0xff)
	case OpZeroExt:
		fmt.Fprintf(&sb, "zext%d", t.W)
	case OpSignExt:
		fmt.Fprintf(&sb, "sext%d", t.W)
	default:
		sb.WriteString(opNames[t.Op])
	}
	for _, a := range t.A {
		sb.WriteByte(' ')
		sb.WriteString(a.str(d - 1))
	}
	sb.WriteByte(')')
	return sb.String()
}

// ---------------------------------------------------------------- evaluation under a model

// Eval computes the value of t under the assignment (variables missing from it count as 0).
func Eval(t *Term, model map[string]uint64, memo map[*Term]uint64) uint64 {
	if t.Op == OpConst {
		return t.C
	}
	if v, ok := memo[t]; ok {
		return v
	}
	var r uint64
	switch t.Op {
	case OpVar:
		r = model[t.Name] & mask1(t.W)
	case OpNot:
		r = 1 - Eval(t.A[0], model, memo)
	case OpAnd:
		r = Eval(t.A[0], model, memo) & Eval(t.A[1], model, memo)
	case OpOr:
		r = Eval(t.A[0], model, memo) | Eval(t.A[1], model, memo)
	case OpIte:
		if Eval(t.A[0], model, memo) == 1 {
			r = Eval(t.A[1], model, memo)
		} else {
			r = Eval(t.A[2], model, memo)
		}
	case OpEq:
		if Eval(t.A[0], model, memo) == Eval(t.A[1], model, memo) {
			r = 1
		}
	case OpExtract:
		hi, lo := uint8(t.C>>8), uint8(t.C&0xff)
		r = (Eval(t.A[0], model, memo) >> lo) & mask(hi-lo+1)
	case OpZeroExt:
		r = Eval(t.A[0], model, memo)
	case OpSignExt:
		r = uint64(signed(Eval(t.A[0], model, memo), t.A[0].W)) & mask(t.W)
	case OpConcat:
		r = Eval(t.A[0], model, memo)<<t.A[1].W | Eval(t.A[1], model, memo)
	case OpBNot:
		r = ^Eval(t.A[0], model, memo) & mask(t.W)
	case OpNeg:
		r = -Eval(t.A[0], model, memo) & mask(t.W)
	default:
		a := Const(t.A[0].W, Eval(t.A[0], model, memo))
		b := Const(t.A[1].W, Eval(t.A[1], model, memo))
		r = bin(t.Op, a, b).C
	}
	memo[t] = r
	return r
}

func mask1(w uint8) uint64 {
	if w == 0 {
		return 1
	}
	return mask(w)
}

// Vars collects the variables occurring in t.
func Vars(t *Term, seen map[*Term]bool, out *[]*Term) {
	if t.Op == OpConst || seen[t] {
		return
	}
	seen[t] = true
	if t.Op == OpVar {
		*out = append(*out, t)
		return
	}
	for _, a := range t.A {
		Vars(a, seen, out)
	}
}
