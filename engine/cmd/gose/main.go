// gose: run one harness entry symbolically and print a JSON report.
package main

import (
	"encoding/json"
	"flag"
	"fmt"
	"os"
	"path/filepath"
	"runtime"
	"sort"
	"strings"
	"time"

	"verif/engine/interp"
)

type Report struct {
	Entry        string              `json:"entry"`
	Paths        int                 `json:"paths"`
	EndedPaths   int                 `json:"ended_paths"`
	PanicPaths   int                 `json:"panic_paths"`
	Transitions  int64               `json:"transitions"`
	Obligations  int64               `json:"obligations"`
	Queries      int                 `json:"queries"`
	Sat          int                 `json:"sat"`
	Unsat        int                 `json:"unsat"`
	Unknown      int                 `json:"unknown"`
	SolverErrors int                 `json:"solver_errors"`
	SolverS      float64             `json:"solver_s"`
	WallS        float64             `json:"wall_s"`
	LoadS        float64             `json:"load_s"`
	Exhaustive   bool                `json:"exhaustive"`
	Inconclusive []string            `json:"inconclusive"`
	Violations   []interp.Violation  `json:"violations"`
	Reach        map[string]int      `json:"reach"`
	Bounds       map[string]int      `json:"bounds"`
	Functions    map[string]string   `json:"functions_encoded"`
	Models       map[string]int      `json:"models"`
	Notes        []string            `json:"notes"`
	Samples      []interp.PathResult `json:"samples"`
	Solver       string              `json:"solver"`
	Fallbacks    int                 `json:"fallback_queries"`
}

// overlayDir maps every file under src (harness tree mirroring the repo layout) into repo.
func overlayDir(overlay map[string][]byte, src, repo string) error {
	return filepath.Walk(src, func(path string, info os.FileInfo, err error) error {
		if err != nil {
			return err
		}
		if info.IsDir() || !strings.HasSuffix(path, ".go") {
			return nil
		}
		rel, _ := filepath.Rel(src, path)
		b, err := os.ReadFile(path)
		if err != nil {
			return err
		}
		overlay[filepath.Join(repo, rel)] = b
		return nil
	})
}

func main() {
	repo := flag.String("repo", "/repo", "repository root")
	harness := flag.String("harness", "", "harness tree (mirrors repo layout; files are overlaid)")
	pkgs := flag.String("pkgs", "", "comma separated package patterns to load")
	entry := flag.String("entry", "", "entry function, e.g. github.com/versity/versitygw/backend.VfRange")
	workers := flag.Int("j", runtime.NumCPU(), "workers")
	solverKind := flag.String("solver", os.Getenv("VERIF_SOLVER"), "z3 | z3-new | cvc5")
	budget := flag.Duration("budget", 0, "wall clock budget (0 = none)")
	timeout := flag.Int("qtimeout", 3000, "per query timeout ms (primary solver)")
	solver2 := flag.String("solver2", "cvc5-int", "fallback solver on unknown (none to disable)")
	timeout2 := flag.Int("qtimeout2", 30000, "per query timeout ms (fallback solver)")
	out := flag.String("out", "", "write JSON report here (default stdout)")
	verbose := flag.Bool("v", false, "log each path")
	panicViol := flag.Bool("panic-violation", true, "treat uncaught panics as violations")
	redirects := flag.String("redirects", "", "JSON file: {real function: replacement}")
	maxSteps := flag.Int64("maxsteps", 0, "per-path instruction budget")
	maxDec := flag.Int("maxdecisions", 0, "per-path decision budget")
	flag.Parse()

	t0 := time.Now()
	overlay := map[string][]byte{}
	if *harness != "" {
		for _, h := range strings.Split(*harness, ",") {
			if err := overlayDir(overlay, h, *repo); err != nil {
				fmt.Fprintln(os.Stderr, err)
				os.Exit(2)
			}
		}
	}
	eng, err := interp.Load(interp.LoadConfig{
		RepoDir: *repo, Patterns: strings.Split(*pkgs, ","), Overlay: overlay,
		Env: []string{"GOFLAGS=-mod=mod", "GOPROXY=off", "GOSUMDB=off", "GOTOOLCHAIN=local"},
	})
	if err != nil {
		fmt.Fprintln(os.Stderr, "LOAD FAILED:", err)
		os.Exit(2)
	}
	if *redirects != "" {
		// several files may be given, separated by commas; later files win
		for _, f := range strings.Split(*redirects, ",") {
			b, err := os.ReadFile(f)
			if err != nil {
				fmt.Fprintln(os.Stderr, err)
				os.Exit(2)
			}
			m := map[string]string{}
			if err := json.Unmarshal(b, &m); err != nil {
				fmt.Fprintln(os.Stderr, err)
				os.Exit(2)
			}
			for k, v := range m {
				eng.Redirects[k] = v
			}
		}
	}
	if *maxSteps > 0 {
		eng.MaxSteps = *maxSteps
	}
	if *maxDec > 0 {
		eng.MaxDecisions = *maxDec
	}
	loadS := time.Since(t0).Seconds()
	fn := eng.FindFunc(*entry)
	if fn == nil {
		fmt.Fprintln(os.Stderr, "entry not found:", *entry)
		os.Exit(2)
	}
	ex := &interp.Explorer{Eng: eng, Entry: fn, Workers: *workers, Solver: *solverKind, Budget: *budget, Timeout: *timeout, Solver2: *solver2, Timeout2: *timeout2, Verbose: *verbose, PanicIsViolation: *panicViol}
	ex.Run()

	sort.Strings(ex.Inconclusive)
	inc := ex.Inconclusive
	// dedupe
	var dinc []string
	for i, s := range inc {
		if i == 0 || s != inc[i-1] {
			dinc = append(dinc, s)
		}
	}
	sk := *solverKind
	if sk == "" {
		sk = "z3-new"
	}
	rep := Report{
		Entry: *entry, Paths: ex.Paths, EndedPaths: ex.EndedPaths, PanicPaths: ex.PanicPaths,
		Transitions: ex.Transitions(), Obligations: ex.Obligations(),
		Queries: ex.Stats.Queries, Sat: ex.Stats.Sat, Unsat: ex.Stats.Unsat, Unknown: ex.Stats.Unknown, SolverErrors: ex.Stats.Errors,
		SolverS: float64(ex.Stats.SolverNs) / 1e9, WallS: ex.Wall.Seconds(), LoadS: loadS,
		Exhaustive: ex.Exhaustive, Inconclusive: dinc, Violations: ex.Violations, Reach: ex.Reach, Bounds: ex.Bounds,
		Functions: ex.Funcs, Models: ex.Models, Notes: ex.Notes, Samples: ex.Results, Solver: sk + " (fallback " + *solver2 + ")", Fallbacks: ex.Fallbacks,
	}
	b, _ := json.MarshalIndent(rep, "", " ")
	if *out != "" {
		os.WriteFile(*out, b, 0o644)
	} else {
		os.Stdout.Write(b)
		fmt.Println()
	}
	fmt.Fprintf(os.Stderr, "gose: %s paths=%d violations=%d inconclusive=%d queries=%d exhaustive=%v load=%.1fs wall=%.1fs\n",
		*entry, ex.Paths, len(ex.Violations), len(dinc), ex.Stats.Queries, ex.Exhaustive, loadS, ex.Wall.Seconds())
}
