// Package solver drives one persistent SMT solver process over a pipe.
// Definitions are emitted at the top level (never inside push/pop), the path
// condition grows by (assert …), and feasibility questions are asked with
// check-sat-assuming on a fresh Boolean literal, so nothing ever needs popping.
package solver

import (
	"bufio"
	"fmt"
	"io"
	"os"
	"os/exec"
	"strconv"
	"strings"
	"syscall"
	"time"

	"verif/engine/sym"
)

type Result int

const (
	Unsat Result = iota
	Sat
	Unknown
)

func (r Result) String() string { return [...]string{"unsat", "sat", "unknown"}[r] }

type Stats struct {
	Queries  int
	Sat      int
	Unsat    int
	Unknown  int
	Errors   int
	Hangs    int
	SolverNs int64
}

type Solver struct {
	kind      string
	cmd       *exec.Cmd
	in        io.WriteCloser
	out       *bufio.Reader
	defined   map[int64]bool
	vars      []*sym.Term
	lit       int
	Stats     Stats
	Log       io.Writer // optional transcript
	timeout   int       // ms per query
	dead      bool
	Restarted bool // the process was killed and restarted since the flag was last cleared (session state lost)
	lines     chan string
}

func New(kind string, timeoutMs int) (*Solver, error) {
	s := &Solver{kind: kind, timeout: timeoutMs}
	if err := s.start(); err != nil {
		return nil, err
	}
	return s, nil
}

func (s *Solver) start() error {
	var cmd *exec.Cmd
	switch s.kind {
	case "z3":
		cmd = exec.Command("z3", "-in")
	case "", "z3-new":
		cmd = exec.Command("z3-new", "-in")
	case "cvc5":
		cmd = exec.Command("cvc5", "--incremental", "--lang=smt2", "--produce-models", fmt.Sprintf("--tlimit-per=%d", s.timeout))
	case "cvc5-int":
		cmd = exec.Command("cvc5", "--incremental", "--lang=smt2", "--produce-models", "--solve-bv-as-int=sum", fmt.Sprintf("--tlimit-per=%d", s.timeout))
	default:
		return fmt.Errorf("unknown solver %q", s.kind)
	}
	in, err := cmd.StdinPipe()
	if err != nil {
		return err
	}
	out, err := cmd.StdoutPipe()
	if err != nil {
		return err
	}
	cmd.Stderr = os.Stderr
	// solvers must not outlive the explorer (a killed run would otherwise leave them spinning)
	cmd.SysProcAttr = &syscall.SysProcAttr{Pdeathsig: syscall.SIGKILL}
	if err := cmd.Start(); err != nil {
		return err
	}
	s.cmd, s.in, s.out = cmd, in, bufio.NewReaderSize(out, 1<<16)
	lines := make(chan string, 1024)
	s.lines = lines
	rd := s.out
	go func() {
		for {
			line, err := rd.ReadString('\n')
			if err != nil {
				close(lines)
				return
			}
			lines <- line
		}
	}()
	if d := os.Getenv("GOSE_SMTLOG"); d != "" && s.Log == nil {
		f, _ := os.Create(fmt.Sprintf("%s/solver-%d.smt2", d, cmd.Process.Pid))
		s.Log = f
	}
	s.dead = false
	s.Reset()
	return nil
}

func (s *Solver) Close() {
	if s.cmd != nil {
		s.in.Close()
		s.cmd.Process.Kill()
		s.cmd.Wait()
		s.cmd = nil
	}
}

func (s *Solver) send(str string) {
	if s.Log != nil {
		io.WriteString(s.Log, str)
	}
	if _, err := io.WriteString(s.in, str); err != nil {
		s.dead = true
	}
}

// Reset forgets all definitions and assertions (start of a new path).
func (s *Solver) Reset() {
	s.Restarted = false
	if s.dead {
		s.Close()
		if err := s.start(); err != nil {
			panic(err)
		}
		return
	}
	s.defined = map[int64]bool{}
	s.vars = s.vars[:0]
	s.lit = 0
	s.send("(reset)\n")
	switch s.kind {
	case "cvc5":
		s.send("(set-logic QF_BV)\n")
	case "cvc5-int":
		s.send("(set-logic ALL)\n")
	default:
		s.send(fmt.Sprintf("(set-option :timeout %d)\n", s.timeout))
	}
}

// define emits declarations / definitions for every node of t not yet known to the session.
func (s *Solver) define(t *sym.Term, sb *strings.Builder) {
	if t.Op == sym.OpConst || s.defined[t.ID] {
		return
	}
	// iterative post-order to survive deep terms
	type item struct {
		t    *sym.Term
		done bool
	}
	stack := []item{{t, false}}
	for len(stack) > 0 {
		it := stack[len(stack)-1]
		stack = stack[:len(stack)-1]
		u := it.t
		if u.Op == sym.OpConst || s.defined[u.ID] {
			continue
		}
		if it.done || u.Op == sym.OpVar {
			s.defined[u.ID] = true
			if u.Op == sym.OpVar {
				fmt.Fprintf(sb, "(declare-const %s %s)\n", u.Ref(), sym.SortString(u.W))
				s.vars = append(s.vars, u)
			} else {
				fmt.Fprintf(sb, "(define-fun %s () %s %s)\n", u.Ref(), sym.SortString(u.W), u.Body())
			}
			continue
		}
		stack = append(stack, item{u, true})
		for _, a := range u.A {
			if a.Op != sym.OpConst && !s.defined[a.ID] {
				stack = append(stack, item{a, false})
			}
		}
	}
}

// Assert adds t to the path condition of the session.
func (s *Solver) Assert(t *sym.Term) {
	var sb strings.Builder
	s.define(t, &sb)
	fmt.Fprintf(&sb, "(assert %s)\n", t.Ref())
	s.send(sb.String())
}

// Check asks whether the asserted path condition together with extra is satisfiable.
// On Sat the model of all declared variables is returned.
func (s *Solver) Check(extra *sym.Term) (Result, map[string]uint64) {
	var sb strings.Builder
	if extra != nil {
		s.define(extra, &sb)
		s.lit++
		fmt.Fprintf(&sb, "(declare-const |_a%d| Bool)\n(assert (= |_a%d| %s))\n(check-sat-assuming (|_a%d|))\n", s.lit, s.lit, extra.Ref(), s.lit)
	} else {
		sb.WriteString("(check-sat)\n")
	}
	t0 := time.Now()
	s.send(sb.String())
	line := s.readLine()
	s.Stats.Queries++
	var res Result
	switch line {
	case "sat":
		res = Sat
		s.Stats.Sat++
	case "unsat":
		res = Unsat
		s.Stats.Unsat++
	default:
		res = Unknown
		s.Stats.Unknown++
		if s.dead {
			// restart now so that the caller can re-send the session
			s.Close()
			if err := s.start(); err != nil {
				panic(err)
			}
			s.Restarted = true
		} else if strings.Contains(line, "error") {
			s.Stats.Errors++
			fmt.Fprintf(os.Stderr, "solver: %s\n", line)
		}
	}
	var model map[string]uint64
	if res == Sat {
		model = s.getModel()
	}
	s.Stats.SolverNs += time.Since(t0).Nanoseconds()
	return res, model
}

// CheckLong repeats a query with factor times the normal time limit (z3 kinds; the others behave like Check). It is the
// last resort before a path is given up as undecided.
func (s *Solver) CheckLong(extra *sym.Term, factor int) (Result, map[string]uint64) {
	if !strings.HasPrefix(s.kind, "z3") {
		return s.Check(extra)
	}
	old := s.timeout
	s.timeout = old * factor
	s.send(fmt.Sprintf("(set-option :timeout %d)\n", s.timeout))
	r, m := s.Check(extra)
	s.timeout = old
	s.send(fmt.Sprintf("(set-option :timeout %d)\n", s.timeout))
	return r, m
}

// rawLine reads one output line, killing a solver that overruns its own time limit by far.
func (s *Solver) rawLine() (string, bool) {
	limit := time.Duration(s.timeout)*time.Millisecond*2 + 5*time.Second
	select {
	case line, ok := <-s.lines:
		if !ok {
			s.dead = true
			return "", false
		}
		return line, true
	case <-time.After(limit):
		s.Stats.Hangs++
		s.cmd.Process.Kill()
		s.dead = true
		return "", false
	}
}

func (s *Solver) readLine() string {
	for {
		line, ok := s.rawLine()
		if !ok {
			return "error: solver died or hung"
		}
		line = strings.TrimSpace(line)
		if line == "" {
			continue
		}
		if s.Log != nil {
			fmt.Fprintf(s.Log, "; <- %s\n", line)
		}
		return line
	}
}

func (s *Solver) getModel() map[string]uint64 {
	model := map[string]uint64{}
	if len(s.vars) == 0 {
		return model
	}
	var sb strings.Builder
	sb.WriteString("(get-value (")
	for _, v := range s.vars {
		sb.WriteString(v.Ref())
		sb.WriteByte(' ')
	}
	sb.WriteString("))\n")
	s.send(sb.String())
	// read a balanced s-expression
	depth := 0
	var buf strings.Builder
	started := false
	for {
		line, ok := s.rawLine()
		if !ok {
			return model
		}
		for _, c := range line {
			if c == '(' {
				depth++
				started = true
			} else if c == ')' {
				depth--
			}
		}
		buf.WriteString(line)
		if strings.HasPrefix(strings.TrimSpace(line), "(error") {
			s.Stats.Errors++
			fmt.Fprintf(os.Stderr, "solver: %s", line)
			return model
		}
		if started && depth <= 0 {
			break
		}
	}
	parseValues(buf.String(), model)
	return model
}

// parseValues reads "((|name| #x..) (|n2| true) …)".
func parseValues(s string, model map[string]uint64) {
	i := 0
	n := len(s)
	for i < n {
		// find "(" followed by name
		if s[i] != '(' {
			i++
			continue
		}
		j := i + 1
		for j < n && (s[j] == ' ' || s[j] == '\n') {
			j++
		}
		if j >= n || s[j] == '(' {
			i++
			continue
		}
		var name string
		if s[j] == '|' {
			k := strings.IndexByte(s[j+1:], '|')
			if k < 0 {
				return
			}
			name = s[j+1 : j+1+k]
			j = j + 1 + k + 1
		} else {
			k := j
			for k < n && s[k] != ' ' && s[k] != '\n' && s[k] != ')' {
				k++
			}
			name = s[j:k]
			j = k
		}
		for j < n && (s[j] == ' ' || s[j] == '\n') {
			j++
		}
		k := j
		depth := 0
		for k < n {
			if s[k] == '(' {
				depth++
			} else if s[k] == ')' {
				if depth == 0 {
					break
				}
				depth--
			}
			k++
		}
		val := strings.TrimSpace(s[j:k])
		model[name] = parseConst(val)
		i = k + 1
	}
}

func parseConst(v string) uint64 {
	switch {
	case v == "true":
		return 1
	case v == "false":
		return 0
	case strings.HasPrefix(v, "#x"):
		u, _ := strconv.ParseUint(v[2:], 16, 64)
		return u
	case strings.HasPrefix(v, "#b"):
		u, _ := strconv.ParseUint(v[2:], 2, 64)
		return u
	case strings.HasPrefix(v, "(_ bv"):
		f := strings.Fields(v[5:])
		u, _ := strconv.ParseUint(f[0], 10, 64)
		return u
	}
	return 0
}
