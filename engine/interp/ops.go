package interp

import (
	"fmt"
	"go/constant"
	"go/token"
	"go/types"
	"math"
	"unicode/utf8"

	"golang.org/x/tools/go/ssa"

	"verif/engine/sym"
)

func constBool(c *ssa.Const) bool     { return constant.BoolVal(c.Value) }
func constString(c *ssa.Const) string { return constant.StringVal(c.Value) }

// ------------------------------------------------------------------ unary

func (p *Path) unop(fr *frame, in *ssa.UnOp, x Value) Value {
	switch in.Op {
	case token.MUL:
		return p.load(fr, x)
	case token.ARROW:
		ch := x.(*Chan)
		if ch == nil {
			panic(unmodelled{"receive from nil channel at " + fr.where()})
		}
		var v Value
		ok := false
		if len(ch.Q) > 0 {
			v, ch.Q = ch.Q[0], ch.Q[1:]
			ok = true
		} else if ch.Closed {
			v = zero(in.X.Type().Underlying().(*types.Chan).Elem())
		} else {
			if p.RecvHook != nil {
				v, ok = p.RecvHook(fr, ch, in.X.Type().Underlying().(*types.Chan).Elem())
			} else {
				panic(unmodelled{"receive from empty channel at " + fr.where()})
			}
		}
		if in.CommaOk {
			return Tuple{v, sym.Bool(ok)}
		}
		return v
	case token.NOT:
		return sym.Not(termOf(x))
	case token.SUB:
		switch x := x.(type) {
		case *sym.Term:
			return sym.Neg(x)
		case float64:
			return -x
		}
	case token.XOR:
		return sym.BNot(termOf(x))
	}
	panic(engineBug{fmt.Sprintf("unop %s on %T", in.Op, x)})
}

// ------------------------------------------------------------------ binary

func (p *Path) binop(fr *frame, op token.Token, t types.Type, x, y Value) Value {
	switch a := x.(type) {
	case *sym.Term:
		b, ok := y.(*sym.Term)
		if !ok {
			break
		}
		return p.intBinop(fr, op, t, a, b)
	case float64:
		b := y.(float64)
		switch op {
		case token.ADD:
			return a + b
		case token.SUB:
			return a - b
		case token.MUL:
			return a * b
		case token.QUO:
			return a / b
		case token.EQL:
			return sym.Bool(a == b)
		case token.NEQ:
			return sym.Bool(a != b)
		case token.LSS:
			return sym.Bool(a < b)
		case token.LEQ:
			return sym.Bool(a <= b)
		case token.GTR:
			return sym.Bool(a > b)
		case token.GEQ:
			return sym.Bool(a >= b)
		}
	case string, *Str, *FmtStr:
		switch op {
		case token.ADD:
			return strConcat(x, y)
		case token.EQL:
			return strEq(x, y)
		case token.NEQ:
			return sym.Not(strEq(x, y))
		case token.LSS:
			return strLess(x, y)
		case token.GTR:
			return strLess(y, x)
		case token.LEQ:
			return sym.Not(strLess(y, x))
		case token.GEQ:
			return sym.Not(strLess(x, y))
		}
	}
	switch op {
	case token.EQL:
		return p.equals(fr, x, y)
	case token.NEQ:
		return sym.Not(p.equals(fr, x, y))
	}
	panic(engineBug{fmt.Sprintf("binop %s on %T, %T at %s", op, x, y, fr.where())})
}

func (p *Path) intBinop(fr *frame, op token.Token, t types.Type, a, b *sym.Term) Value {
	if a.W == 0 {
		switch op {
		case token.EQL:
			return sym.Eq(a, b)
		case token.NEQ:
			return sym.Ne(a, b)
		case token.AND, token.LAND:
			return sym.And(a, b)
		case token.OR, token.LOR:
			return sym.Or(a, b)
		}
		panic(engineBug{"bool binop " + op.String()})
	}
	uns := isUnsigned(t)
	switch op {
	case token.ADD:
		return sym.Add(a, b)
	case token.SUB:
		return sym.Sub(a, b)
	case token.MUL:
		return sym.Mul(a, b)
	case token.QUO, token.REM:
		if p.Branch(sym.Eq(b, sym.Const(b.W, 0)), fr) {
			p.raise(fr, "integer divide by zero")
		}
		if op == token.QUO {
			if uns {
				return sym.UDiv(a, b)
			}
			return sym.SDiv(a, b)
		}
		if uns {
			return sym.URem(a, b)
		}
		return sym.SRem(a, b)
	case token.AND:
		return sym.BAnd(a, b)
	case token.OR:
		return sym.BOr(a, b)
	case token.XOR:
		return sym.BXor(a, b)
	case token.AND_NOT:
		return sym.BAnd(a, sym.BNot(b))
	case token.SHL, token.SHR:
		// shift count: any integer type; counts >= width give 0 (or sign fill)
		var cnt *sym.Term
		if b.IsConst() {
			c := b.C
			if c > uint64(a.W) {
				c = uint64(a.W)
			}
			cnt = sym.Const(a.W, c)
		} else {
			wide := b
			if wide.W < a.W {
				wide = sym.ZeroExt(wide, a.W)
				cnt = wide
			} else if wide.W > a.W {
				big := sym.ULe(sym.Const(wide.W, uint64(a.W)), wide)
				cnt = sym.Ite(big, sym.Const(a.W, uint64(a.W)), sym.Extract(wide, a.W-1, 0))
			} else {
				cnt = wide
			}
		}
		if op == token.SHL {
			return sym.Shl(a, cnt)
		}
		if uns {
			return sym.LShr(a, cnt)
		}
		return sym.AShr(a, cnt)
	case token.EQL:
		return sym.Eq(a, b)
	case token.NEQ:
		return sym.Ne(a, b)
	case token.LSS:
		if uns {
			return sym.ULt(a, b)
		}
		return sym.SLt(a, b)
	case token.LEQ:
		if uns {
			return sym.ULe(a, b)
		}
		return sym.SLe(a, b)
	case token.GTR:
		if uns {
			return sym.ULt(b, a)
		}
		return sym.SLt(b, a)
	case token.GEQ:
		if uns {
			return sym.ULe(b, a)
		}
		return sym.SLe(b, a)
	}
	panic(engineBug{"int binop " + op.String()})
}

// equals builds the (possibly symbolic) equality of two values of the same static type.
func (p *Path) equals(fr *frame, x, y Value) *sym.Term {
	switch a := x.(type) {
	case nil:
		return sym.Bool(y == nil)
	case *sym.Term:
		b, ok := y.(*sym.Term)
		if !ok {
			return sym.False
		}
		if a.W != b.W {
			return sym.False
		}
		return sym.Eq(a, b)
	case float64:
		b, ok := y.(float64)
		return sym.Bool(ok && a == b)
	case string, *Str, *FmtStr:
		switch y.(type) {
		case string, *Str, *FmtStr:
			return strEq(x, y)
		}
		return sym.False
	case *Value:
		b, ok := y.(*Value)
		return sym.Bool(ok && a == b)
	case *SymPtr:
		panic(unmodelled{"comparison of symbolic element pointers"})
	case *Map:
		b, ok := y.(*Map)
		return sym.Bool(ok && a == b)
	case *Chan:
		b, ok := y.(*Chan)
		return sym.Bool(ok && a == b)
	case *Handle:
		b, ok := y.(*Handle)
		return sym.Bool(ok && a == b)
	case *Closure:
		b, ok := y.(*Closure)
		return sym.Bool(ok && a == b) // only nil comparisons are legal in Go
	case *ssa.Function:
		b, ok := y.(*ssa.Function)
		if !ok {
			if c, isC := y.(*Closure); isC && c == nil {
				return sym.Bool(a == nil)
			}
		}
		return sym.Bool(ok && a == b)
	case Slice:
		b, ok := y.(Slice)
		if ok && (a.A == nil || b.A == nil) {
			return sym.Bool(a.A == nil && b.A == nil)
		}
		panic(engineBug{"slice comparison"})
	case Iface:
		b, ok := y.(Iface)
		if !ok {
			return sym.False
		}
		if a.T == nil || b.T == nil {
			return sym.Bool(a.T == nil && b.T == nil)
		}
		if !types.Identical(a.T, b.T) {
			return sym.False
		}
		if !types.Comparable(a.T) {
			p.raise(fr, "comparing uncomparable type "+a.T.String())
		}
		return p.equals(fr, a.V, b.V)
	case Struct:
		b := y.(Struct)
		r := sym.True
		for i := range a {
			r = sym.And(r, p.equals(fr, a[i], b[i]))
			if r.IsFalse() {
				return r
			}
		}
		return r
	case Array:
		b := y.(Array)
		r := sym.True
		for i := range a {
			r = sym.And(r, p.equals(fr, a[i], b[i]))
			if r.IsFalse() {
				return r
			}
		}
		return r
	}
	panic(engineBug{fmt.Sprintf("equals on %T, %T at %s", x, y, fr.where())})
}

// ------------------------------------------------------------------ conversions

func (p *Path) conv(fr *frame, dst, src types.Type, x Value) Value {
	ud, us := dst.Underlying(), src.Underlying()
	switch ud := ud.(type) {
	case *types.Pointer, *types.Signature, *types.Map, *types.Chan, *types.Struct, *types.Array, *types.Interface:
		return x
	case *types.Slice:
		if isStringT(us) {
			// string -> []byte / []rune
			eb := ud.Elem().Underlying().(*types.Basic)
			if eb.Kind() == types.Uint8 {
				b := strBytesOrFail(fr, x)
				a := make([]Value, len(b))
				for i := range b {
					a[i] = b[i]
				}
				return Slice{A: a}
			}
			s, ok := x.(string)
			if !ok {
				// ASCII-only symbolic strings convert byte by byte
				b := strBytes(x)
				a := make([]Value, len(b))
				for i := range b {
					if !p.Branch(sym.ULt(b[i], sym.Byte(0x80)), fr) {
						panic(unmodelled{"[]rune of a string with symbolic non-ASCII byte at " + fr.where()})
					}
					a[i] = sym.ZeroExt(b[i], 32)
				}
				return Slice{A: a}
			}
			rs := []rune(s)
			a := make([]Value, len(rs))
			for i, r := range rs {
				a[i] = sym.Const(32, uint64(r))
			}
			return Slice{A: a}
		}
		return x
	case *types.Basic:
		if ud.Kind() == types.UnsafePointer {
			return x
		}
		if ud.Info()&types.IsString != 0 {
			switch xs := x.(type) {
			case string, *Str, *FmtStr:
				return x
			case Slice:
				if len(xs.A) == 0 {
					return ""
				}
				if xs.A[0].(*sym.Term).W == 8 {
					b := make([]*sym.Term, len(xs.A))
					for i, c := range xs.A {
						b[i] = c.(*sym.Term)
					}
					return mkStr(b)
				}
				// []rune
				var out []*sym.Term
				for _, c := range xs.A {
					r := c.(*sym.Term)
					if !r.IsConst() {
						if !p.Branch(sym.ULt(r, sym.Const(32, 0x80)), fr) {
							panic(unmodelled{"string([]rune) with symbolic non-ASCII rune at " + fr.where()})
						}
						out = append(out, sym.Extract(r, 7, 0))
						continue
					}
					var buf [4]byte
					n := utf8.EncodeRune(buf[:], rune(int32(r.C)))
					for _, c := range buf[:n] {
						out = append(out, sym.Byte(c))
					}
				}
				return mkStr(out)
			case *sym.Term:
				// integer -> string (a rune)
				if xs.IsConst() {
					return string(rune(xs.Signed()))
				}
				w := xs
				if w.W < 32 {
					w = sym.ZeroExt(w, 32)
				}
				if !p.Branch(sym.ULt(w, sym.Const(w.W, 0x80)), fr) {
					panic(unmodelled{"string(rune) of symbolic non-ASCII value at " + fr.where()})
				}
				return mkStr([]*sym.Term{sym.Extract(w, 7, 0)})
			}
		}
		if ud.Info()&types.IsInteger != 0 {
			w := widthOf(ud)
			switch xs := x.(type) {
			case *sym.Term:
				if xs.W == 0 {
					break
				}
				if xs.W == w {
					return xs
				}
				if xs.W > w {
					return sym.Extract(xs, w-1, 0)
				}
				if isUnsigned(us) {
					return sym.ZeroExt(xs, w)
				}
				return sym.SignExt(xs, w)
			case float64:
				if ud.Info()&types.IsUnsigned != 0 {
					return sym.Const(w, uint64(xs))
				}
				return sym.Const(w, uint64(int64(xs)))
			case *Value:
				// uintptr(unsafe.Pointer(p)): opaque address
				return sym.Const(w, uint64(fmtAddr(xs)))
			}
		}
		if ud.Info()&types.IsFloat != 0 {
			switch xs := x.(type) {
			case float64:
				if ud.Kind() == types.Float32 {
					return float64(float32(xs))
				}
				return xs
			case *sym.Term:
				if xs.IsConst() {
					if isUnsigned(us) {
						return float64(xs.C)
					}
					return float64(xs.Signed())
				}
				return p.symFloat(fr, xs, isUnsigned(us))
			}
		}
		if ud.Info()&types.IsBoolean != 0 {
			return x
		}
	}
	panic(unmodelled{fmt.Sprintf("conversion %v -> %v of %T at %s", src, dst, x, fr.where())})
}

func fmtAddr(p *Value) uintptr {
	var u uintptr
	fmt.Sscanf(fmt.Sprintf("%p", p), "0x%x", &u)
	return u
}

func strBytesOrFail(fr *frame, x Value) []*sym.Term {
	if f, ok := x.(*FmtStr); ok {
		panic(unmodelled{"bytes of opaque formatted string " + f.String() + " at " + fr.where()})
	}
	return strBytes(x)
}

// symFloat handles int->float conversions of symbolic integers: not representable.
func (p *Path) symFloat(fr *frame, x *sym.Term, uns bool) Value {
	panic(unmodelled{"symbolic integer converted to float at " + fr.where()})
}

// ------------------------------------------------------------------ builtins

func (p *Path) callBuiltin(fr *frame, fn *ssa.Builtin, args []Value) Value {
	switch fn.Name() {
	case "append":
		s0 := args[0].(Slice)
		switch t := args[1].(type) {
		case Slice:
			if len(t.A) == 0 {
				return s0
			}
			return Slice{A: appendVals(s0.A, t.A)}
		case string, *Str:
			b := strBytes(t)
			if len(b) == 0 {
				return s0
			}
			vs := make([]Value, len(b))
			for i := range b {
				vs[i] = b[i]
			}
			return Slice{A: appendVals(s0.A, vs)}
		case *FmtStr:
			panic(unmodelled{"append of opaque formatted string at " + fr.where()})
		}
		panic(engineBug{fmt.Sprintf("append %T", args[1])})
	case "copy":
		dst := args[0].(Slice)
		switch src := args[1].(type) {
		case Slice:
			n := len(dst.A)
			if len(src.A) < n {
				n = len(src.A)
			}
			// memmove semantics
			tmp := make([]Value, n)
			for i := 0; i < n; i++ {
				tmp[i] = copyVal(src.A[i])
			}
			copy(dst.A, tmp)
			return mkInt(int64(n))
		case string, *Str:
			b := strBytes(src)
			n := len(dst.A)
			if len(b) < n {
				n = len(b)
			}
			for i := 0; i < n; i++ {
				dst.A[i] = b[i]
			}
			return mkInt(int64(n))
		}
		panic(engineBug{fmt.Sprintf("copy from %T", args[1])})
	case "close":
		ch := args[0].(*Chan)
		ch.Closed = true
		return nil
	case "delete":
		m := args[0].(*Map)
		if m != nil {
			p.mapDelete(fr, m, args[1])
		}
		return nil
	case "print", "println":
		return nil
	case "len":
		switch x := args[0].(type) {
		case string, *Str:
			return mkInt(int64(strLen(x)))
		case *FmtStr:
			return p.fmtStrLen(fr, x)
		case Array:
			return mkInt(int64(len(x)))
		case *Value:
			return mkInt(int64(len((*x).(Array))))
		case Slice:
			return mkInt(int64(len(x.A)))
		case *Map:
			if x == nil {
				return mkInt(0)
			}
			return mkInt(int64(x.n))
		case *Chan:
			if x == nil {
				return mkInt(0)
			}
			return mkInt(int64(len(x.Q)))
		}
		panic(engineBug{fmt.Sprintf("len(%T)", args[0])})
	case "cap":
		switch x := args[0].(type) {
		case Array:
			return mkInt(int64(len(x)))
		case *Value:
			return mkInt(int64(len((*x).(Array))))
		case Slice:
			return mkInt(int64(cap(x.A)))
		case *Chan:
			return mkInt(int64(x.Cap))
		}
		panic(engineBug{fmt.Sprintf("cap(%T)", args[0])})
	case "min", "max":
		isMin := fn.Name() == "min"
		r := args[0]
		for _, a := range args[1:] {
			switch x := r.(type) {
			case *sym.Term:
				y := a.(*sym.Term)
				uns := isUnsigned(fn.Type().(*types.Signature).Params().At(0).Type())
				var lt *sym.Term
				if uns {
					lt = sym.ULt(y, x)
				} else {
					lt = sym.SLt(y, x)
				}
				if !isMin {
					if uns {
						lt = sym.ULt(x, y)
					} else {
						lt = sym.SLt(x, y)
					}
				}
				r = sym.Ite(lt, y, x)
			case float64:
				if isMin {
					r = math.Min(x, a.(float64))
				} else {
					r = math.Max(x, a.(float64))
				}
			case string:
				y, ok := a.(string)
				if !ok {
					panic(unmodelled{"min/max on symbolic strings"})
				}
				if (isMin && y < x) || (!isMin && y > x) {
					r = y
				}
			default:
				panic(unmodelled{"min/max on " + fmt.Sprintf("%T", r)})
			}
		}
		return r
	case "clear":
		switch x := args[0].(type) {
		case *Map:
			if x != nil {
				x.entries = nil
				x.index = map[string]*mapEntry{}
				x.n = 0
			}
		case Slice:
			for i := range x.A {
				x.A[i] = zeroLike(x.A[i])
			}
		}
		return nil
	case "panic":
		panic(goPanic{v: args[0]})
	case "recover":
		return p.doRecover(fr)
	case "ssa:wrapnilchk":
		recv := args[0]
		if ptr, ok := recv.(*Value); ok && ptr == nil {
			p.raise(fr, fmt.Sprintf("value method %s.%s called using nil pointer", show(args[1]), show(args[2])))
		}
		return recv
	}
	panic(unmodelled{"builtin " + fn.Name()})
}

func zeroLike(v Value) Value {
	switch x := v.(type) {
	case *sym.Term:
		return sym.Const(x.W, 0)
	case string, *Str, *FmtStr:
		return ""
	case float64:
		return float64(0)
	case *Value:
		return (*Value)(nil)
	case Struct:
		n := make(Struct, len(x))
		for i := range x {
			n[i] = zeroLike(x[i])
		}
		return n
	case Array:
		n := make(Array, len(x))
		for i := range x {
			n[i] = zeroLike(x[i])
		}
		return n
	case Iface:
		return Iface{}
	case Slice:
		return Slice{}
	case *Map:
		return (*Map)(nil)
	}
	return nil
}

func appendVals(a []Value, b []Value) []Value {
	n := len(a) + len(b)
	if n <= cap(a) {
		r := a[:n]
		for i, v := range b {
			r[len(a)+i] = copyVal(v)
		}
		return r
	}
	nc := 2 * cap(a)
	if nc < n {
		nc = n
	}
	if nc < 8 {
		nc = 8
	}
	r := make([]Value, n, nc)
	copy(r, a)
	for i, v := range b {
		r[len(a)+i] = copyVal(v)
	}
	return r
}

// doRecover implements recover(): effective only directly inside a deferred call of a panicking frame.
func (p *Path) doRecover(caller *frame) Value {
	if caller != nil && !caller.panicking && caller.caller != nil && caller.caller.panicking {
		f := caller.caller
		f.panicking = false
		gp := f.panicVal.(goPanic)
		f.panicVal = nil
		// a recovered runtime panic is no longer a crash
		if n := len(p.panics); n > 0 {
			p.panics[n-1].Recovered = true
		}
		if iv, ok := gp.v.(Iface); ok {
			return iv
		}
		return Iface{T: types.Typ[types.String], V: gp.v}
	}
	return Iface{}
}

func (p *Path) fmtStrLen(fr *frame, f *FmtStr) Value {
	panic(unmodelled{"len of opaque formatted string " + f.String() + " at " + fr.where()})
}
