package interp

import (
	"fmt"
	"go/types"
	"strconv"
	"strings"

	"golang.org/x/tools/go/ssa"

	"verif/engine/sym"
)

type intrinsicFn func(p *Path, fr *frame, fn *ssa.Function, args []Value) Value

var intrinsics = map[string]intrinsicFn{}

func reg(f intrinsicFn, names ...string) {
	for _, n := range names {
		intrinsics[n] = f
	}
}

func nop(p *Path, fr *frame, fn *ssa.Function, args []Value) Value { return nil }

func retZero(p *Path, fr *frame, fn *ssa.Function, args []Value) Value {
	r := fn.Signature.Results()
	if r.Len() == 0 {
		return nil
	}
	return zero(r)
}

func identity0(p *Path, fr *frame, fn *ssa.Function, args []Value) Value { return args[0] }

// seqBytes views a string or byte slice as a sequence of 8-bit terms.
func seqBytes(v Value) []*sym.Term {
	switch x := v.(type) {
	case string, *Str:
		return strBytes(x)
	case Slice:
		b := make([]*sym.Term, len(x.A))
		for i, c := range x.A {
			b[i] = c.(*sym.Term)
		}
		return b
	}
	panic(engineBug{fmt.Sprintf("seqBytes(%T)", v)})
}

func allConst(b []*sym.Term) bool {
	for _, t := range b {
		if !t.IsConst() {
			return false
		}
	}
	return true
}

func matchAt(s, sub []*sym.Term, i int) *sym.Term {
	r := sym.True
	for j := range sub {
		r = sym.And(r, sym.Eq(s[i+j], sub[j]))
		if r.IsFalse() {
			return r
		}
	}
	return r
}

// indexTerm: first i with s[i:i+len(sub)] == sub, else -1, as one term.
func indexTerm(s, sub []*sym.Term) *sym.Term {
	r := mkInt(-1)
	for i := len(s) - len(sub); i >= 0; i-- {
		r = sym.Ite(matchAt(s, sub, i), mkInt(int64(i)), r)
	}
	return r
}

func lastIndexTerm(s, sub []*sym.Term) *sym.Term {
	r := mkInt(-1)
	for i := 0; i+len(sub) <= len(s); i++ {
		r = sym.Ite(matchAt(s, sub, i), mkInt(int64(i)), r)
	}
	return r
}

func init() {
	// ---- searching (replaces assembly leaves in internal/bytealg and their callers' CPU-dependent cut-overs)
	index := func(p *Path, fr *frame, fn *ssa.Function, args []Value) Value {
		return indexTerm(seqBytes(args[0]), seqBytes(args[1]))
	}
	reg(index, "strings.Index", "bytes.Index", "internal/bytealg.IndexString", "internal/bytealg.Index", "internal/stringslite.Index")
	indexByte := func(p *Path, fr *frame, fn *ssa.Function, args []Value) Value {
		return indexTerm(seqBytes(args[0]), []*sym.Term{termOf(args[1])})
	}
	reg(indexByte, "strings.IndexByte", "bytes.IndexByte", "internal/bytealg.IndexByteString", "internal/bytealg.IndexByte", "internal/stringslite.IndexByte")
	reg(func(p *Path, fr *frame, fn *ssa.Function, args []Value) Value {
		return lastIndexTerm(seqBytes(args[0]), []*sym.Term{termOf(args[1])})
	}, "strings.LastIndexByte", "bytes.LastIndexByte", "internal/bytealg.LastIndexByteString", "internal/bytealg.LastIndexByte")
	reg(func(p *Path, fr *frame, fn *ssa.Function, args []Value) Value {
		return lastIndexTerm(seqBytes(args[0]), seqBytes(args[1]))
	}, "strings.LastIndex", "bytes.LastIndex")
	count := func(p *Path, fr *frame, fn *ssa.Function, args []Value) Value {
		s, sub := seqBytes(args[0]), seqBytes(args[1])
		if len(sub) == 0 {
			if allConst(s) {
				bs := make([]byte, len(s))
				for i := range s {
					bs[i] = byte(s[i].C)
				}
				return mkInt(int64(strings.Count(string(bs), "")))
			}
			panic(unmodelled{"Count with empty separator on symbolic string"})
		}
		n := 0
		for i := 0; i+len(sub) <= len(s); {
			if p.Branch(matchAt(s, sub, i), fr) {
				n++
				i += len(sub)
			} else {
				i++
			}
		}
		return mkInt(int64(n))
	}
	reg(count, "strings.Count", "bytes.Count")
	reg(func(p *Path, fr *frame, fn *ssa.Function, args []Value) Value {
		c := termOf(args[1])
		s := seqBytes(args[0])
		n := 0
		for i := range s {
			if p.Branch(sym.Eq(s[i], c), fr) {
				n++
			}
		}
		return mkInt(int64(n))
	}, "internal/bytealg.CountString", "internal/bytealg.Count")
	reg(func(p *Path, fr *frame, fn *ssa.Function, args []Value) Value {
		a, b := seqBytes(args[0]), seqBytes(args[1])
		if len(a) != len(b) {
			return sym.False
		}
		return matchAt(a, b, 0)
	}, "bytes.Equal", "internal/bytealg.Equal")
	reg(func(p *Path, fr *frame, fn *ssa.Function, args []Value) Value {
		a, b := seqBytes(args[0]), seqBytes(args[1])
		lt := strLess(mkStr(a), mkStr(b))
		gt := strLess(mkStr(b), mkStr(a))
		return sym.Ite(lt, mkInt(-1), sym.Ite(gt, mkInt(1), mkInt(0)))
	}, "bytes.Compare", "internal/bytealg.Compare", "strings.Compare", "internal/bytealg.CompareString", "cmp.Compare[string]")
	reg(func(p *Path, fr *frame, fn *ssa.Function, args []Value) Value {
		n, _ := constInt(args[0])
		a := make([]Value, n)
		for i := range a {
			a[i] = sym.Byte(0)
		}
		return Slice{A: a}
	}, "internal/bytealg.MakeNoZero")
	reg(identity0, "strings.Clone", "internal/stringslite.Clone", "internal/abi.NoEscape", "internal/abi.Escape", "strconv.cloneString", "unique.clone")
	reg(nop, "(*strings.Builder).copyCheck", "runtime.KeepAlive", "runtime.SetFinalizer", "runtime.Gosched", "internal/race.Acquire", "internal/race.Release",
		"internal/race.ReleaseMerge", "internal/race.Disable", "internal/race.Enable", "internal/race.Read", "internal/race.Write", "internal/race.ReadRange", "internal/race.WriteRange")
	reg(func(p *Path, fr *frame, fn *ssa.Function, args []Value) Value {
		b := args[0].(*Value)
		buf := (*b).(Struct)[1].(Slice)
		return mkStr(seqBytes(buf))
	}, "(*strings.Builder).String")

	// ---- ASCII case mapping without forking per byte
	mapASCII := func(lower bool) intrinsicFn {
		return func(p *Path, fr *frame, fn *ssa.Function, args []Value) Value {
			if s, ok := args[0].(string); ok {
				if lower {
					return strings.ToLower(s)
				}
				return strings.ToUpper(s)
			}
			b := seqBytes(args[0])
			ascii := sym.True
			for _, c := range b {
				ascii = sym.And(ascii, sym.ULt(c, sym.Byte(0x80)))
			}
			if !p.Branch(ascii, fr) {
				panic(unmodelled{"case mapping of symbolic non-ASCII string at " + fr.where()})
			}
			out := make([]*sym.Term, len(b))
			for i, c := range b {
				if lower {
					isU := sym.And(sym.ULe(sym.Byte('A'), c), sym.ULe(c, sym.Byte('Z')))
					out[i] = sym.Ite(isU, sym.Add(c, sym.Byte(32)), c)
				} else {
					isL := sym.And(sym.ULe(sym.Byte('a'), c), sym.ULe(c, sym.Byte('z')))
					out[i] = sym.Ite(isL, sym.Sub(c, sym.Byte(32)), c)
				}
			}
			if _, isSlice := args[0].(Slice); isSlice {
				a := make([]Value, len(out))
				for i := range out {
					a[i] = out[i]
				}
				return Slice{A: a}
			}
			return mkStr(out)
		}
	}
	reg(mapASCII(true), "strings.ToLower", "bytes.ToLower")
	reg(mapASCII(false), "strings.ToUpper", "bytes.ToUpper")
	reg(func(p *Path, fr *frame, fn *ssa.Function, args []Value) Value {
		if a, ok := args[0].(string); ok {
			if b, ok := args[1].(string); ok {
				return sym.Bool(strings.EqualFold(a, b))
			}
		}
		a, b := seqBytes(args[0]), seqBytes(args[1])
		if len(a) != len(b) {
			// only differs for non-ASCII folding
			return sym.False
		}
		low := func(c *sym.Term) *sym.Term {
			isU := sym.And(sym.ULe(sym.Byte('A'), c), sym.ULe(c, sym.Byte('Z')))
			return sym.Ite(isU, sym.Add(c, sym.Byte(32)), c)
		}
		r := sym.True
		for i := range a {
			r = sym.And(r, sym.Eq(low(a[i]), low(b[i])))
		}
		return r
	}, "strings.EqualFold", "bytes.EqualFold")

	// ---- strconv on symbolic integers: opaque decimal rendering
	reg(func(p *Path, fr *frame, fn *ssa.Function, args []Value) Value {
		t := termOf(args[0])
		if t.IsConst() {
			return strconv.FormatInt(t.Signed(), 10)
		}
		return &FmtStr{Parts: []Value{FmtArg{Verb: 'd', V: t}}}
	}, "strconv.Itoa")
	reg(func(p *Path, fr *frame, fn *ssa.Function, args []Value) Value {
		t := termOf(args[0])
		base, _ := constInt(args[1])
		if t.IsConst() {
			if fn.Name() == "FormatUint" {
				return strconv.FormatUint(t.C, int(base))
			}
			return strconv.FormatInt(t.Signed(), int(base))
		}
		verb := byte('d')
		if fn.Name() == "FormatUint" {
			verb = 'u'
		}
		if base != 10 {
			panic(unmodelled{"FormatInt of symbolic value in base " + strconv.Itoa(int(base))})
		}
		return &FmtStr{Parts: []Value{FmtArg{Verb: verb, V: t}}}
	}, "strconv.FormatInt", "strconv.FormatUint")

	// ---- sync: single-threaded unless the thread scheduler hooks in
	reg(func(p *Path, fr *frame, fn *ssa.Function, args []Value) Value {
		if p.LockHook != nil {
			p.LockHook(fr, args[0].(*Value), fn.Name())
		}
		// Requests run nested at scheduling points of one another (never truly in parallel): a nested request that
		// needs a lock its enclosing request holds would wait for it, so that schedule does not exist - the path ends.
		mu := args[0].(*Value)
		if op := fn.Name(); p.lockCb != nil && !p.inLockCb && (op == "Lock" || op == "RLock") {
			p.inLockCb = true
			p.call(fr, p.lockCb, []Value{op})
			p.inLockCb = false
		}
		if p.locks == nil {
			p.locks = map[*Value]*lockState{}
		}
		st := p.locks[mu]
		if st == nil {
			st = &lockState{}
			p.locks[mu] = st
		}
		switch fn.Name() {
		case "Lock":
			if st.w > 0 || st.r > 0 {
				panic(pathEnd{"schedule blocked: lock held by the enclosing request"})
			}
			st.w++
		case "RLock":
			if st.w > 0 {
				panic(pathEnd{"schedule blocked: lock held by the enclosing request"})
			}
			st.r++
		case "Unlock":
			if st.w > 0 {
				st.w--
			}
		case "RUnlock":
			if st.r > 0 {
				st.r--
			}
		}
		return nil
	}, "(*sync.Mutex).Lock", "(*sync.Mutex).Unlock", "(*sync.RWMutex).Lock", "(*sync.RWMutex).Unlock", "(*sync.RWMutex).RLock", "(*sync.RWMutex).RUnlock")
	reg(func(p *Path, fr *frame, fn *ssa.Function, args []Value) Value { return sym.True }, "(*sync.Mutex).TryLock", "(*sync.RWMutex).TryLock")
	reg(nop, "(*sync.WaitGroup).Add", "(*sync.WaitGroup).Done", "(*sync.WaitGroup).Wait", "(*sync.Pool).Put", "(*sync.Cond).Broadcast", "(*sync.Cond).Signal")
	reg(func(p *Path, fr *frame, fn *ssa.Function, args []Value) Value {
		o := args[0].(*Value)
		key := "once"
		m, _ := p.state[key].(map[*Value]bool)
		if m == nil {
			m = map[*Value]bool{}
			p.state[key] = m
		}
		if p.shared {
			// shared initialisation: remember on the engine-wide path
		}
		if m[o] {
			return nil
		}
		m[o] = true
		p.call(fr, args[1], nil)
		return nil
	}, "(*sync.Once).Do")
	reg(func(p *Path, fr *frame, fn *ssa.Function, args []Value) Value {
		pool := args[0].(*Value)
		newf := (*pool).(Struct)
		// field "New" is the last field of sync.Pool
		nf := newf[len(newf)-1]
		switch f := nf.(type) {
		case *Closure:
			if f == nil {
				return Iface{}
			}
		case *ssa.Function:
			if f == nil {
				return Iface{}
			}
		}
		return p.call(fr, nf, nil)
	}, "(*sync.Pool).Get")

	// ---- sync.Map as a per-path association map keyed by the receiver
	syncMap := func(p *Path, recv Value) *Map {
		ms, _ := p.state["syncmaps"].(map[*Value]*Map)
		if ms == nil {
			ms = map[*Value]*Map{}
			p.state["syncmaps"] = ms
		}
		k := recv.(*Value)
		if ms[k] == nil {
			ms[k] = newMap()
		}
		return ms[k]
	}
	reg(func(p *Path, fr *frame, fn *ssa.Function, args []Value) Value {
		if e := p.mapFind(fr, syncMap(p, args[0]), args[1], nil); e != nil {
			return Tuple{e.v, sym.True}
		}
		return Tuple{Iface{}, sym.False}
	}, "(*sync.Map).Load")
	reg(func(p *Path, fr *frame, fn *ssa.Function, args []Value) Value {
		p.mapSet(fr, syncMap(p, args[0]), args[1], args[2])
		return nil
	}, "(*sync.Map).Store")
	reg(func(p *Path, fr *frame, fn *ssa.Function, args []Value) Value {
		p.mapDelete(fr, syncMap(p, args[0]), args[1])
		return nil
	}, "(*sync.Map).Delete")
	reg(func(p *Path, fr *frame, fn *ssa.Function, args []Value) Value {
		m := syncMap(p, args[0])
		if e := p.mapFind(fr, m, args[1], nil); e != nil {
			return Tuple{e.v, sym.True}
		}
		p.mapSet(fr, m, args[1], args[2])
		return Tuple{args[2], sym.False}
	}, "(*sync.Map).LoadOrStore")
	reg(func(p *Path, fr *frame, fn *ssa.Function, args []Value) Value {
		m := syncMap(p, args[0])
		e := p.mapFind(fr, m, args[1], nil)
		if e == nil {
			return Tuple{Iface{}, sym.False}
		}
		v := e.v
		p.mapDelete(fr, m, args[1])
		return Tuple{v, sym.True}
	}, "(*sync.Map).LoadAndDelete")
	reg(func(p *Path, fr *frame, fn *ssa.Function, args []Value) Value {
		m := syncMap(p, args[0])
		for _, e := range append([]*mapEntry{}, m.entries...) {
			if e.deleted {
				continue
			}
			if !p.Branch(termOf(p.call(fr, args[1], []Value{e.k, e.v})), fr) {
				break
			}
		}
		return nil
	}, "(*sync.Map).Range")

	// ---- sync/atomic on plain cells
	atomicLoad := func(p *Path, fr *frame, fn *ssa.Function, args []Value) Value { return p.load(fr, args[0]) }
	atomicStore := func(p *Path, fr *frame, fn *ssa.Function, args []Value) Value {
		p.store(fr, args[0], args[1])
		return nil
	}
	atomicAdd := func(p *Path, fr *frame, fn *ssa.Function, args []Value) Value {
		n := sym.Add(termOf(p.load(fr, args[0])), termOf(args[1]))
		p.store(fr, args[0], n)
		return n
	}
	atomicSwap := func(p *Path, fr *frame, fn *ssa.Function, args []Value) Value {
		old := p.load(fr, args[0])
		p.store(fr, args[0], args[1])
		return old
	}
	atomicCAS := func(p *Path, fr *frame, fn *ssa.Function, args []Value) Value {
		cur := p.load(fr, args[0])
		if p.Branch(p.equals(fr, cur, args[1]), fr) {
			p.store(fr, args[0], args[2])
			return sym.True
		}
		return sym.False
	}
	for _, t := range []string{"Int32", "Int64", "Uint32", "Uint64", "Uintptr", "Pointer"} {
		reg(atomicLoad, "sync/atomic.Load"+t)
		reg(atomicStore, "sync/atomic.Store"+t)
		reg(atomicSwap, "sync/atomic.Swap"+t)
		reg(atomicCAS, "sync/atomic.CompareAndSwap"+t)
		if t != "Pointer" {
			reg(atomicAdd, "sync/atomic.Add"+t)
		}
	}
	// typed atomics: the value is the (last) field "v" of the struct; operate on it directly
	vcell := func(p *Path, fr *frame, recv Value) *Value {
		ptr := recv.(*Value)
		if ptr == nil {
			p.raise(fr, "invalid memory address or nil pointer dereference")
		}
		s := (*ptr).(Struct)
		return &s[len(s)-1]
	}
	for _, t := range []string{"Int32", "Int64", "Uint32", "Uint64", "Uintptr", "Bool", "Pointer"} {
		T := "(*sync/atomic." + t + ")."
		reg(func(p *Path, fr *frame, fn *ssa.Function, args []Value) Value {
			v := *vcell(p, fr, args[0])
			if fn.Signature.Recv() != nil && strings.Contains(fn.Signature.Recv().Type().String(), "atomic.Bool") {
				return sym.Ne(termOf(v), sym.Const(32, 0))
			}
			return v
		}, T+"Load")
		reg(func(p *Path, fr *frame, fn *ssa.Function, args []Value) Value {
			c := vcell(p, fr, args[0])
			if strings.Contains(fn.Signature.Recv().Type().String(), "atomic.Bool") {
				*c = sym.Ite(termOf(args[1]), sym.Const(32, 1), sym.Const(32, 0))
				return nil
			}
			*c = args[1]
			return nil
		}, T+"Store")
		reg(func(p *Path, fr *frame, fn *ssa.Function, args []Value) Value {
			c := vcell(p, fr, args[0])
			n := sym.Add(termOf(*c), termOf(args[1]))
			*c = n
			return n
		}, T+"Add")
		reg(func(p *Path, fr *frame, fn *ssa.Function, args []Value) Value {
			c := vcell(p, fr, args[0])
			old := *c
			*c = args[1]
			return old
		}, T+"Swap")
		reg(func(p *Path, fr *frame, fn *ssa.Function, args []Value) Value {
			c := vcell(p, fr, args[0])
			if p.Branch(p.equals(fr, *c, args[1]), fr) {
				*c = args[2]
				return sym.True
			}
			return sym.False
		}, T+"CompareAndSwap")
	}

	// ---- errors
	reg(func(p *Path, fr *frame, fn *ssa.Function, args []Value) Value {
		return sym.Bool(p.errorsIs(fr, args[0].(Iface), args[1].(Iface), 0))
	}, "errors.Is")
	reg(func(p *Path, fr *frame, fn *ssa.Function, args []Value) Value {
		return sym.Bool(p.errorsAs(fr, args[0].(Iface), args[1].(Iface), 0))
	}, "errors.As")

	// ---- sort.Slice family: stable insertion sort driven by the real less closure
	sortSlice := func(p *Path, fr *frame, fn *ssa.Function, args []Value) Value {
		s := args[0].(Iface).V.(Slice)
		less := args[1]
		for i := 1; i < len(s.A); i++ {
			for j := i; j > 0; j-- {
				lt := termOf(p.call(fr, less, []Value{mkInt(int64(j)), mkInt(int64(j - 1))}))
				if !p.Branch(lt, fr) {
					break
				}
				s.A[j], s.A[j-1] = s.A[j-1], s.A[j]
			}
		}
		return nil
	}
	reg(sortSlice, "sort.Slice", "sort.SliceStable")
	reg(func(p *Path, fr *frame, fn *ssa.Function, args []Value) Value {
		s := args[0].(Slice)
		for i := 1; i < len(s.A); i++ {
			for j := i; j > 0; j-- {
				if !p.Branch(strLess(s.A[j], s.A[j-1]), fr) {
					break
				}
				s.A[j], s.A[j-1] = s.A[j-1], s.A[j]
			}
		}
		return nil
	}, "sort.Strings", "slices.Sort[[]string,string]")
	reg(func(p *Path, fr *frame, fn *ssa.Function, args []Value) Value {
		// sort.Sort(data Interface): insertion sort through Len/Less/Swap
		d := args[0].(Iface)
		call := func(name string, a ...Value) Value {
			m := p.eng.lookupMethodByName(d.T, name)
			return p.callFn(fr, m, append([]Value{d.V}, a...), nil)
		}
		n, _ := constInt(call("Len"))
		for i := int64(1); i < n; i++ {
			for j := i; j > 0; j-- {
				if !p.Branch(termOf(call("Less", mkInt(j), mkInt(j-1))), fr) {
					break
				}
				call("Swap", mkInt(j), mkInt(j-1))
			}
		}
		return nil
	}, "sort.Sort", "sort.Stable")

	// ---- logging has an empty body (formatting is not the subject of any check)
	const dl = "github.com/versity/versitygw/s3api/debuglogger."
	reg(retZero, dl+"Logf", dl+"LogFiberRequestDetails", dl+"LogFiberResponseDetails", dl+"PrintInsideHorizontalBorders", dl+"InternalError", dl+"Infof", dl+"DebugLogf")
	// ---- XML error documents are opaque
	reg(func(p *Path, fr *frame, fn *ssa.Function, args []Value) Value {
		return Slice{A: []Value{&Handle{Kind: "opaque:s3-error-document", P: args[0]}}}
	}, "github.com/versity/versitygw/s3err.GetAPIErrorResponse")
	reg(func(p *Path, fr *frame, fn *ssa.Function, args []Value) Value {
		st := args[0].(Struct)
		return strConcat(strConcat(st[0], ": "), st[1])
	}, "(github.com/versity/versitygw/s3err.APIError).Error")
	// ---- context.WithValue without reflection
	reg(func(p *Path, fr *frame, fn *ssa.Function, args []Value) Value {
		vt := p.eng.pkgByID["context"].Type("valueCtx").Type()
		var sv Value = Struct{args[0], args[1], args[2]}
		return Iface{T: types.NewPointer(vt), V: &sv}
	}, "context.WithValue")
	// ---- unsafe builtins appear as functions in a few stdlib spots
	// ---- ids: fresh, pairwise distinct, increasing
	reg(func(p *Path, fr *frame, fn *ssa.Function, args []Value) Value {
		n, _ := p.state["ulid"].(int)
		n++
		p.state["ulid"] = n
		a := make(Array, 16)
		for i := range a {
			a[i] = sym.Byte(0)
		}
		a[14], a[15] = sym.Byte(byte(n>>8)), sym.Byte(byte(n))
		return a
	}, "github.com/oklog/ulid/v2.Make")
	reg(func(p *Path, fr *frame, fn *ssa.Function, args []Value) Value {
		a := args[0].(Array)
		n := int(a[14].(*sym.Term).C)<<8 | int(a[15].(*sym.Term).C)
		return fmt.Sprintf("01VF%022d", n)
	}, "(github.com/oklog/ulid/v2.ULID).String")
	reg(func(p *Path, fr *frame, fn *ssa.Function, args []Value) Value {
		n, _ := p.state["uuid"].(int)
		n++
		p.state["uuid"] = n
		return fmt.Sprintf("00000000-0000-4000-8000-%012d", n)
	}, "github.com/google/uuid.NewString")
	reg(func(p *Path, fr *frame, fn *ssa.Function, args []Value) Value {
		n, _ := p.state["uuid"].(int)
		n++
		p.state["uuid"] = n
		a := make(Array, 16)
		for i := range a {
			a[i] = sym.Byte(0)
		}
		a[6], a[8] = sym.Byte(0x40), sym.Byte(0x80)
		a[14], a[15] = sym.Byte(byte(n>>8)), sym.Byte(byte(n))
		return a
	}, "github.com/google/uuid.New")
	reg(func(p *Path, fr *frame, fn *ssa.Function, args []Value) Value {
		a := args[0].(Array)
		n := int(a[14].(*sym.Term).C)<<8 | int(a[15].(*sym.Term).C)
		return fmt.Sprintf("00000000-0000-4000-8000-%012d", n)
	}, "(github.com/google/uuid.UUID).String")
	reg(nop, "os.runtime_beforeExit")
	reg(func(p *Path, fr *frame, fn *ssa.Function, args []Value) Value { return Slice{} }, "syscall.runtime_envs")
}

// errorsIs follows Unwrap chains like errors.Is (without reflection).
func (p *Path) errorsIs(fr *frame, err, target Iface, depth int) bool {
	if depth > 50 {
		panic(unmodelled{"errors.Is: chain too deep"})
	}
	if err.T == nil || target.T == nil {
		return err.T == nil && target.T == nil
	}
	comparable := types.Comparable(target.T)
	for {
		if comparable && types.Identical(err.T, target.T) {
			if p.Branch(p.equals(fr, err.V, target.V), fr) {
				return true
			}
		}
		if err.T == runtimeErrorType {
			return false
		}
		if m := p.eng.lookupMethodByName(err.T, "Is"); m != nil && m.Signature.Params().Len() == 1 && m.Signature.Results().Len() == 1 {
			if p.Branch(termOf(p.callFn(fr, m, []Value{err.V, target}, nil)), fr) {
				return true
			}
		}
		m := p.eng.lookupMethodByName(err.T, "Unwrap")
		if m == nil {
			return false
		}
		r := p.callFn(fr, m, []Value{err.V}, nil)
		switch u := r.(type) {
		case Iface:
			if u.T == nil {
				return false
			}
			err = u
		case Slice:
			for _, e := range u.A {
				if ei := e.(Iface); ei.T != nil && p.errorsIs(fr, ei, target, depth+1) {
					return true
				}
			}
			return false
		default:
			return false
		}
	}
}

func (p *Path) errorsAs(fr *frame, err, target Iface, depth int) bool {
	if target.T == nil {
		p.raise(fr, "errors: target cannot be nil")
	}
	ptrT, ok := target.T.Underlying().(*types.Pointer)
	if !ok {
		p.raise(fr, "errors: target must be a non-nil pointer")
	}
	targetType := ptrT.Elem()
	dst := target.V.(*Value)
	for err.T != nil {
		match := false
		if it, isI := targetType.Underlying().(*types.Interface); isI {
			match = err.T != runtimeErrorType && p.eng.implements(err.T, it)
			if match {
				*dst = err
				return true
			}
		} else if types.Identical(err.T, targetType) {
			*dst = copyVal(err.V)
			return true
		}
		if err.T == runtimeErrorType {
			return false
		}
		if m := p.eng.lookupMethodByName(err.T, "As"); m != nil && m.Signature.Params().Len() == 1 {
			if p.Branch(termOf(p.callFn(fr, m, []Value{err.V, target}, nil)), fr) {
				return true
			}
		}
		m := p.eng.lookupMethodByName(err.T, "Unwrap")
		if m == nil {
			return false
		}
		r := p.callFn(fr, m, []Value{err.V}, nil)
		switch u := r.(type) {
		case Iface:
			err = u
		case Slice:
			for _, e := range u.A {
				if ei := e.(Iface); ei.T != nil && p.errorsAs(fr, ei, target, depth+1) {
					return true
				}
			}
			return false
		default:
			return false
		}
	}
	return false
}
