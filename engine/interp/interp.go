// Package interp is GoSE: a symbolic interpreter over go/ssa.
package interp

import (
	"fmt"
	"go/token"
	"go/types"
	"os"
	"sort"
	"strings"
	"sync"

	"golang.org/x/tools/go/packages"
	"golang.org/x/tools/go/ssa"
	"golang.org/x/tools/go/ssa/ssautil"

	"verif/engine/sym"
)

// ------------------------------------------------------------------ engine (shared, read-only after Load)

type Engine struct {
	Prog     *ssa.Program
	Pkgs     []*packages.Package
	RepoDir  string
	pkgByID  map[string]*ssa.Package
	fnInfoMu sync.Mutex
	fnInfos  map[*ssa.Function]*fnInfo

	sharedMu      sync.Mutex
	sharedGlobals map[*ssa.Global]*Value
	sharedInited  map[*ssa.Package]bool
	sharedPath    *Path

	Redirects map[string]string // real function name -> replacement function name
	redirFns  map[string]*ssa.Function

	FuncsSeenMu sync.Mutex
	FuncsSeen   map[string]string // repo functions executed -> position

	ModelsUsedMu sync.Mutex
	ModelsUsed   map[string]int // intrinsic / redirect name -> calls

	methodCache sync.Map // typeMethodKey -> *ssa.Function
	implCache   sync.Map

	srcMu    sync.Mutex
	srcCache map[string][]string

	MaxSteps     int64
	MaxDecisions int
	Trace        bool
}

type fnInfo struct {
	slots     map[ssa.Value]int
	n         int
	intrinsic intrinsicFn
	redirect  *ssa.Function
	deny      bool
	name      string
	repo      bool
	pos       string
}

type LoadConfig struct {
	RepoDir  string
	Patterns []string
	Overlay  map[string][]byte
	Env      []string
}

func Load(cfg LoadConfig) (*Engine, error) {
	pcfg := &packages.Config{
		Mode:       packages.LoadAllSyntax,
		Dir:        cfg.RepoDir,
		Overlay:    cfg.Overlay,
		Env:        append(os.Environ(), cfg.Env...),
		BuildFlags: []string{"-tags=zzvfsym"},
	}
	pkgs, err := packages.Load(pcfg, cfg.Patterns...)
	if err != nil {
		return nil, err
	}
	var errs []string
	packages.Visit(pkgs, nil, func(p *packages.Package) {
		for _, e := range p.Errors {
			errs = append(errs, e.Error())
		}
	})
	if len(errs) > 0 {
		if len(errs) > 20 {
			errs = errs[:20]
		}
		return nil, fmt.Errorf("load errors:\n%s", strings.Join(errs, "\n"))
	}
	prog, _ := ssautil.AllPackages(pkgs, ssa.InstantiateGenerics|ssa.BareInits)
	prog.Build()
	e := &Engine{
		Prog:          prog,
		Pkgs:          pkgs,
		RepoDir:       cfg.RepoDir,
		pkgByID:       map[string]*ssa.Package{},
		fnInfos:       map[*ssa.Function]*fnInfo{},
		sharedGlobals: map[*ssa.Global]*Value{},
		sharedInited:  map[*ssa.Package]bool{},
		Redirects:     map[string]string{},
		redirFns:      map[string]*ssa.Function{},
		FuncsSeen:     map[string]string{},
		ModelsUsed:    map[string]int{},
		MaxSteps:      200_000_000,
		MaxDecisions:  100_000,
	}
	for _, p := range prog.AllPackages() {
		e.pkgByID[p.Pkg.Path()] = p
	}
	e.sharedPath = &Path{eng: e, shared: true, globals: map[*ssa.Global]*Value{}, inited: map[*ssa.Package]bool{}}
	return e, nil
}

// srcLine returns the trimmed source text of "relpath:line" inside the repository.
func (e *Engine) srcLine(site string) string {
	i := strings.LastIndex(site, ":")
	if i < 0 {
		return ""
	}
	var ln int
	fmt.Sscan(site[i+1:], &ln)
	e.srcMu.Lock()
	defer e.srcMu.Unlock()
	if e.srcCache == nil {
		e.srcCache = map[string][]string{}
	}
	lines, ok := e.srcCache[site[:i]]
	if !ok {
		b, err := os.ReadFile(e.RepoDir + "/" + site[:i])
		if err == nil {
			lines = strings.Split(string(b), "\n")
		}
		e.srcCache[site[:i]] = lines
	}
	if ln >= 1 && ln <= len(lines) {
		return strings.TrimSpace(lines[ln-1])
	}
	return ""
}

// FindFunc resolves "pkgpath.Name" or "(pkgpath.T).M" / "(*pkgpath.T).M".
func (e *Engine) FindFunc(name string) *ssa.Function {
	if strings.HasPrefix(name, "(") {
		// method
		i := strings.LastIndex(name, ").")
		recv, m := name[1:i], name[i+2:]
		ptr := strings.HasPrefix(recv, "*")
		recv = strings.TrimPrefix(recv, "*")
		j := strings.LastIndex(recv, ".")
		pkg := e.pkgByID[recv[:j]]
		if pkg == nil {
			return nil
		}
		tn := pkg.Type(recv[j+1:])
		if tn == nil {
			return nil
		}
		var T types.Type = tn.Type()
		if ptr {
			T = types.NewPointer(T)
		}
		return e.Prog.LookupMethod(T, pkg.Pkg, m)
	}
	i := strings.LastIndex(name, ".")
	if i < 0 {
		return nil
	}
	pkg := e.pkgByID[name[:i]]
	if pkg == nil {
		return nil
	}
	return pkg.Func(name[i+1:])
}

func (e *Engine) info(fn *ssa.Function) *fnInfo {
	e.fnInfoMu.Lock()
	defer e.fnInfoMu.Unlock()
	if fi := e.fnInfos[fn]; fi != nil {
		return fi
	}
	fi := &fnInfo{slots: map[ssa.Value]int{}}
	n := 0
	add := func(v ssa.Value) {
		fi.slots[v] = n
		n++
	}
	for _, p := range fn.Params {
		add(p)
	}
	for _, fv := range fn.FreeVars {
		add(fv)
	}
	for _, b := range fn.Blocks {
		for _, in := range b.Instrs {
			if v, ok := in.(ssa.Value); ok {
				add(v)
			}
		}
	}
	fi.n = n
	o := fn
	if fn.Origin() != nil {
		o = fn.Origin()
	}
	fi.name = o.String()
	if fn.Parent() == nil {
		if in := intrinsics[fi.name]; in != nil {
			fi.intrinsic = in
		} else if rn, ok := e.Redirects[fi.name]; ok {
			rf := e.redirFns[rn]
			if rf == nil {
				rf = e.FindFunc(rn)
				if rf == nil {
					panic("redirect target not found: " + rn)
				}
				e.redirFns[rn] = rf
			}
			fi.redirect = rf
		} else if o.Pkg != nil && deniedPkg(o.Pkg.Pkg.Path()) && !allowedFuncs[fi.name] {
			fi.deny = true
		} else if o.Pkg == nil && fn.Signature.Recv() != nil {
			// wrapper methods of denied packages have no Pkg; resolved through the callee
		}
	}
	if pos := fn.Pos(); pos != token.NoPos {
		p := e.Prog.Fset.Position(pos)
		if strings.HasPrefix(p.Filename, e.RepoDir+"/") {
			rel := strings.TrimPrefix(p.Filename, e.RepoDir+"/")
			if !strings.Contains(rel, "zz_vf") && !strings.HasPrefix(rel, "internal/zzvf") {
				fi.repo = true
				fi.pos = fmt.Sprintf("%s:%d", rel, p.Line)
			}
		}
	}
	e.fnInfos[fn] = fi
	return fi
}

// packages whose bodies are never interpreted: reaching them without an intrinsic or redirect is an un-modelled call.
var deniedPrefixes = []string{
	"os", "syscall", "net", "reflect", "runtime", "encoding/json", "encoding/xml", "crypto", "hash", "fmt",
	"log", "sync", "internal/poll", "internal/syscall", "internal/reflectlite", "unsafe",
	"github.com/gofiber", "github.com/valyala", "github.com/aws", "github.com/pkg/xattr", "golang.org/x/sys",
	"github.com/oklog", "github.com/google/uuid", "math/rand", "os/exec", "io/ioutil",
	"github.com/Azure", "github.com/nats-io", "github.com/segmentio", "github.com/hashicorp", "github.com/go-ldap",
	"github.com/DataDog", "github.com/smira", "github.com/urfave", "github.com/versity/scoutfs-go", "mime", "compress",
	"text/template", "html", "database", "archive", "debug", "plugin", "testing", "math/big", "encoding/gob",
}

// small pure functions inside otherwise denied packages
var allowedFuncs = map[string]bool{
	"(*fmt.wrapError).Unwrap": true, "(*fmt.wrapError).Error": true,
	"(*fmt.wrapErrors).Unwrap": true, "(*fmt.wrapErrors).Error": true,
	"(syscall.Errno).Is": true, "(syscall.Errno).Temporary": true, "(syscall.Errno).Timeout": true, "(syscall.Errno).Error": true,
	"os.IsPathSeparator": true, "os.IsExist": true, "os.IsNotExist": true, "os.IsPermission": true, "os.underlyingError": true,
	"os.underlyingErrorIs": true, "(*os.LinkError).Error": true, "(*os.LinkError).Unwrap": true, "(*os.SyscallError).Unwrap": true,
	"(*os.SyscallError).Error": true, "os.NewSyscallError": true,
	"(*github.com/pkg/xattr.Error).Error": true, "(*github.com/pkg/xattr.Error).Unwrap": true,
}

func deniedPkg(path string) bool {
	if path == "net/url" || path == "net/http" || path == "net/textproto" {
		return false
	}
	for _, p := range deniedPrefixes {
		if path == p || strings.HasPrefix(path, p+"/") {
			return true
		}
	}
	return false
}

// packages whose globals are initialised once and shared by all paths (immutable tables and sentinels).
func sharedPkg(path string) bool {
	if strings.Contains(path, "versitygw") {
		return false
	}
	return true
}

// ------------------------------------------------------------------ control-flow signals (Go panics)

type goPanic struct{ v Value } // a panic of the interpreted program

type unmodelled struct{ what string }

type pathEnd struct{ reason string } // infeasible assumption, crash decision, …

type engineBug struct{ what string }

type abortSignal struct{} // zzvf.Abort: unwinds without running deferred functions

// ------------------------------------------------------------------ per-path state

type frame struct {
	p         *Path
	caller    *frame
	fn        *ssa.Function
	info      *fnInfo
	block     *ssa.BasicBlock
	prevBlock *ssa.BasicBlock
	env       []Value
	defers    []*deferred
	result    Value
	panicking bool
	panicVal  interface{}
	curInstr  ssa.Instruction
}

type deferred struct {
	fn   Value
	args []Value
	pos  token.Pos
}

func (fr *frame) get(key ssa.Value) Value {
	switch key := key.(type) {
	case nil:
		return nil
	case *ssa.Function:
		return key
	case *ssa.Builtin:
		return key
	case *ssa.Const:
		return constValue(key)
	case *ssa.Global:
		return fr.p.global(key)
	}
	if i, ok := fr.info.slots[key]; ok {
		return fr.env[i]
	}
	panic(engineBug{fmt.Sprintf("get: no value for %T %v in %s", key, key.Name(), fr.fn)})
}

func (fr *frame) set(key ssa.Value, v Value) {
	fr.env[fr.info.slots[key]] = v
}

func constValue(c *ssa.Const) Value {
	if c.Value == nil {
		return zero(c.Type())
	}
	t := c.Type().Underlying()
	if b, ok := t.(*types.Basic); ok {
		switch {
		case b.Info()&types.IsBoolean != 0:
			return sym.Bool(constBool(c))
		case b.Info()&types.IsInteger != 0:
			w := widthOf(b)
			if b.Info()&types.IsUnsigned != 0 {
				return sym.Const(w, c.Uint64())
			}
			return sym.Const(w, uint64(c.Int64()))
		case b.Info()&types.IsString != 0:
			return constString(c)
		case b.Info()&types.IsFloat != 0:
			return c.Float64()
		case b.Info()&types.IsComplex != 0:
			return c.Complex128()
		}
	}
	if _, ok := t.(*types.TypeParam); ok {
		panic(engineBug{"constant of type parameter"})
	}
	panic(engineBug{fmt.Sprintf("constValue: %v", c)})
}

func (p *Path) posString(pos token.Pos) string {
	if pos == token.NoPos {
		return "?"
	}
	q := p.eng.Prog.Fset.Position(pos)
	f := strings.TrimPrefix(q.Filename, p.eng.RepoDir+"/")
	if i := strings.Index(f, "/go/pkg/mod/"); i >= 0 {
		f = f[i+len("/go/pkg/mod/"):]
	}
	return fmt.Sprintf("%s:%d", f, q.Line)
}

// where describes the current source location (nearest instruction with a position) and function.
func (fr *frame) where() string {
	for f := fr; f != nil; f = f.caller {
		if f.curInstr != nil && f.curInstr.Pos() != token.NoPos {
			return fmt.Sprintf("%s (%s)", fr.p.posString(f.curInstr.Pos()), f.fn.String())
		}
	}
	if fr != nil {
		return fr.fn.String()
	}
	return "?"
}

// repoSite returns the innermost frame position that lies in the repository (not the harness, not the stdlib).
func (fr *frame) repoSite() (pos string, fn string) {
	for f := fr; f != nil; f = f.caller {
		if f.info != nil && f.info.repo && f.curInstr != nil {
			// walk back to an instruction with a position
			ip := f.curInstr.Pos()
			if ip == token.NoPos {
				ip = f.fn.Pos()
			}
			return fr.p.posString(ip), f.fn.String()
		}
	}
	return "", ""
}

func (fr *frame) stack() string {
	var sb strings.Builder
	n := 0
	for f := fr; f != nil && n < 25; f = f.caller {
		pos := token.NoPos
		if f.curInstr != nil {
			pos = f.curInstr.Pos()
		}
		fmt.Fprintf(&sb, "    %s at %s\n", f.fn.String(), fr.p.posString(pos))
		n++
	}
	return sb.String()
}

// global returns the address of a package-level variable, initialising its package on first touch.
func (p *Path) global(g *ssa.Global) *Value {
	pkg := g.Pkg
	if !p.shared && sharedPkg(pkg.Pkg.Path()) {
		return p.eng.sharedGlobal(g)
	}
	if !p.inited[pkg] {
		p.initPkg(pkg)
	}
	return p.globals[g]
}

func (p *Path) initPkg(pkg *ssa.Package) {
	p.inited[pkg] = true
	for _, m := range pkg.Members {
		if g, ok := m.(*ssa.Global); ok {
			v := new(Value)
			*v = zero(g.Type().(*types.Pointer).Elem())
			p.globals[g] = v
		}
	}
	if ci := customInit[pkg.Pkg.Path()]; ci != nil {
		ci(p, pkg)
		return
	}
	if init := pkg.Func("init"); init != nil && len(init.Blocks) > 0 {
		p.callFn(nil, init, nil, nil)
	}
}

// packages whose initialisers touch the runtime: their globals are set up by hand
var customInit map[string]func(p *Path, pkg *ssa.Package)

func init() {
	customInit = map[string]func(p *Path, pkg *ssa.Package){
		"errors":  func(p *Path, pkg *ssa.Package) {}, // errorType is only used by errors.As (an intrinsic)
		"syscall": func(p *Path, pkg *ssa.Package) {}, // environment and error-string tables are not needed
		"os": func(p *Path, pkg *ssa.Package) {
			// the sentinel errors are the io/fs ones
			fspkg := p.eng.pkgByID["io/fs"]
			for _, n := range []string{"ErrInvalid", "ErrPermission", "ErrExist", "ErrNotExist", "ErrClosed"} {
				g, ok := pkg.Members[n].(*ssa.Global)
				fg, ok2 := fspkg.Members[n].(*ssa.Global)
				if ok && ok2 {
					*p.globals[g] = *p.global(fg)
				}
			}
		},
	}
}

func (e *Engine) sharedGlobal(g *ssa.Global) *Value {
	e.sharedMu.Lock()
	defer e.sharedMu.Unlock()
	sp := e.sharedPath
	if !sp.inited[g.Pkg] {
		sp.initPkg(g.Pkg)
	}
	return sp.globals[g]
}

// ------------------------------------------------------------------ calls

func (p *Path) call(caller *frame, fnv Value, args []Value) Value {
	switch fn := fnv.(type) {
	case *ssa.Function:
		if fn == nil {
			p.raise(caller, "call of nil function")
		}
		return p.callFn(caller, fn, args, nil)
	case *Closure:
		if fn == nil {
			p.raise(caller, "invalid memory address or nil pointer dereference (nil func)")
		}
		return p.callFn(caller, fn.Fn, args, fn.Env)
	case *ssa.Builtin:
		return p.callBuiltin(caller, fn, args)
	}
	panic(engineBug{fmt.Sprintf("cannot call %T", fnv)})
}

// CallFn is the entry point used by the explorer.
func (p *Path) CallFn(fn *ssa.Function, args []Value) Value { return p.callFn(nil, fn, args, nil) }

func (p *Path) callFn(caller *frame, fn *ssa.Function, args []Value, env []Value) Value {
	fi := p.eng.info(fn)
	if fi.intrinsic != nil {
		p.noteModel(fi.name)
		return fi.intrinsic(p, caller, fn, args)
	}
	if fi.redirect != nil {
		p.noteModel(fi.name + " -> " + fi.redirect.String())
		return p.callFn(caller, fi.redirect, args, nil)
	}
	if fi.deny || fn.Blocks == nil {
		// wrappers/thunks/bounds of denied packages have bodies of their own; only stop at real leaves
		if fn.Blocks == nil || fn.Synthetic == "" {
			panic(unmodelled{"call to " + fi.name + " from " + caller.where()})
		}
	}
	if fn.TypeParams().Len() > 0 && len(fn.TypeArgs()) == 0 {
		panic(engineBug{"uninstantiated generic " + fi.name})
	}
	if fi.repo && !p.shared {
		p.noteFunc(fi)
	}
	p.depth++
	if p.depth > 2000 {
		panic(unmodelled{"call depth exceeded in " + fi.name})
	}
	fr := &frame{p: p, caller: caller, fn: fn, info: fi, env: make([]Value, fi.n)}
	for i, prm := range fn.Params {
		fr.env[fi.slots[prm]] = args[i]
	}
	for i, fv := range fn.FreeVars {
		fr.env[fi.slots[fv]] = env[i]
	}
	fr.block = fn.Blocks[0]
	for fr.block != nil {
		p.runFrame(fr)
	}
	p.depth--
	return fr.result
}

func (p *Path) noteFunc(fi *fnInfo) {
	if p.funcs == nil {
		p.funcs = map[string]string{}
	}
	if _, ok := p.funcs[fi.name]; !ok {
		p.funcs[fi.name] = fi.pos
	}
}

func (p *Path) noteModel(name string) {
	if p.models == nil {
		p.models = map[string]int{}
	}
	p.models[name]++
}

func (p *Path) runFrame(fr *frame) {
	defer func() {
		if fr.block == nil {
			return // normal return
		}
		r := recover()
		gp, ok := r.(goPanic)
		if !ok {
			panic(r) // engine signal: propagate untouched
		}
		p.depth = fr.depthAtEntry(p)
		fr.panicking = true
		fr.panicVal = gp
		p.runDefers(fr)
		fr.block = fr.fn.Recover
		if fr.block == nil {
			// recovered without named results: return zero values
			fr.result = zero(fr.fn.Signature.Results())
			if fr.fn.Signature.Results().Len() == 0 {
				fr.result = nil
			}
		}
	}()
	for {
		blk := fr.block
		instrs := blk.Instrs
		// phis: parallel assignment
		nphi := 0
		for nphi < len(instrs) {
			if _, ok := instrs[nphi].(*ssa.Phi); !ok {
				break
			}
			nphi++
		}
		if nphi > 0 {
			pred := -1
			for i, b := range blk.Preds {
				if b == fr.prevBlock {
					pred = i
					break
				}
			}
			tmp := make([]Value, nphi)
			for i := 0; i < nphi; i++ {
				tmp[i] = fr.get(instrs[i].(*ssa.Phi).Edges[pred])
			}
			for i := 0; i < nphi; i++ {
				fr.set(instrs[i].(*ssa.Phi), tmp[i])
			}
		}
		jumped := false
		for _, in := range instrs[nphi:] {
			fr.curInstr = in
			p.steps++
			if p.steps > p.eng.MaxSteps {
				panic(unmodelled{"step budget exceeded at " + fr.where()})
			}
			switch p.visit(fr, in) {
			case kReturn:
				return
			case kJump:
				jumped = true
			}
			if jumped {
				break
			}
		}
		if !jumped {
			panic(engineBug{"block fell through: " + fr.fn.String()})
		}
	}
}

func (fr *frame) depthAtEntry(p *Path) int {
	d := 0
	for f := fr; f != nil; f = f.caller {
		d++
	}
	return d
}

func (p *Path) runDefers(fr *frame) {
	for len(fr.defers) > 0 {
		d := fr.defers[len(fr.defers)-1]
		fr.defers = fr.defers[:len(fr.defers)-1]
		p.runDefer(fr, d)
	}
	if fr.panicking {
		panic(fr.panicVal)
	}
}

func (p *Path) runDefer(fr *frame, d *deferred) {
	ok := false
	defer func() {
		if !ok {
			r := recover()
			if gp, isGo := r.(goPanic); isGo {
				fr.panicking = true
				fr.panicVal = gp
				return
			}
			panic(r)
		}
	}()
	p.call(fr, d.fn, d.args)
	ok = true
}

// raise makes the interpreted program panic with a runtime error.
func (p *Path) raise(fr *frame, msg string) {
	site, fn := "", ""
	if fr != nil {
		site, fn = fr.repoSite()
	}
	p.panics = append(p.panics, PanicRec{Msg: msg, Site: site, Fn: fn, Where: fr.where()})
	panic(goPanic{v: Iface{T: runtimeErrorType, V: "runtime error: " + msg}})
}

// runtimeErrorType stands for runtime.Error values; it is a named string type with an Error method the engine answers itself.
var runtimeErrorType = types.NewNamed(types.NewTypeName(token.NoPos, nil, "runtimeError", nil), types.Typ[types.String], nil)

type continuation int

const (
	kNext continuation = iota
	kReturn
	kJump
)

func (p *Path) prepareCall(fr *frame, c *ssa.CallCommon) (Value, []Value) {
	v := fr.get(c.Value)
	var fn Value
	var args []Value
	if c.Method == nil {
		fn = v
	} else {
		recv := v.(Iface)
		if recv.T == nil {
			p.raise(fr, "invalid memory address or nil pointer dereference (method call on nil interface)")
		}
		if recv.T == runtimeErrorType {
			// Error() / RuntimeError() on a runtime error
			return &ssa.Builtin{}, []Value{recv.V}
		}
		f := p.eng.lookupMethod(recv.T, c.Method)
		if f == nil {
			panic(engineBug{fmt.Sprintf("method %s not found for %s", c.Method, recv.T)})
		}
		fn = f
		args = append(args, recv.V)
	}
	for _, a := range c.Args {
		args = append(args, fr.get(a))
	}
	return fn, args
}

type methodKey struct {
	t types.Type
	m *types.Func
}

func (e *Engine) lookupMethod(t types.Type, m *types.Func) *ssa.Function {
	k := methodKey{t, m}
	if f, ok := e.methodCache.Load(k); ok {
		return f.(*ssa.Function)
	}
	f := e.Prog.LookupMethod(t, m.Pkg(), m.Name())
	e.methodCache.Store(k, f)
	return f
}

func (e *Engine) lookupMethodByName(t types.Type, name string) *ssa.Function {
	ms := e.Prog.MethodSets.MethodSet(t)
	for i := 0; i < ms.Len(); i++ {
		if ms.At(i).Obj().Name() == name {
			return e.Prog.MethodValue(ms.At(i))
		}
	}
	return nil
}

func (p *Path) visit(fr *frame, instr ssa.Instruction) continuation {
	switch in := instr.(type) {
	case *ssa.DebugRef:
	case *ssa.UnOp:
		fr.set(in, p.unop(fr, in, fr.get(in.X)))
	case *ssa.BinOp:
		fr.set(in, p.binop(fr, in.Op, in.X.Type(), fr.get(in.X), fr.get(in.Y)))
	case *ssa.Call:
		fn, args := p.prepareCall(fr, &in.Call)
		if b, ok := fn.(*ssa.Builtin); ok && b.Object() == nil && b.Name() == "" {
			fr.set(in, args[0]) // runtime error Error()
			break
		}
		fr.set(in, p.call(fr, fn, args))
	case *ssa.ChangeInterface:
		fr.set(in, fr.get(in.X))
	case *ssa.ChangeType:
		fr.set(in, fr.get(in.X))
	case *ssa.Convert:
		fr.set(in, p.conv(fr, in.Type(), in.X.Type(), fr.get(in.X)))
	case *ssa.MultiConvert:
		fr.set(in, p.conv(fr, in.Type(), in.X.Type(), fr.get(in.X)))
	case *ssa.SliceToArrayPointer:
		s := fr.get(in.X).(Slice)
		n := int(in.Type().Underlying().(*types.Pointer).Elem().Underlying().(*types.Array).Len())
		if len(s.A) < n {
			p.raise(fr, "cannot convert slice to array pointer: length too short")
		}
		if s.A == nil {
			fr.set(in, (*Value)(nil))
			break
		}
		var arr Value = Array(s.A[:n:n])
		fr.set(in, &arr)
	case *ssa.MakeInterface:
		fr.set(in, Iface{T: in.X.Type(), V: copyVal(fr.get(in.X))})
	case *ssa.Extract:
		fr.set(in, fr.get(in.Tuple).(Tuple)[in.Index])
	case *ssa.Slice:
		fr.set(in, p.slice(fr, in, fr.get(in.X), fr.get(in.Low), fr.get(in.High), fr.get(in.Max)))
	case *ssa.Return:
		switch len(in.Results) {
		case 0:
		case 1:
			fr.result = copyVal(fr.get(in.Results[0]))
		default:
			res := make(Tuple, len(in.Results))
			for i, r := range in.Results {
				res[i] = copyVal(fr.get(r))
			}
			fr.result = res
		}
		fr.block = nil
		return kReturn
	case *ssa.RunDefers:
		p.runDefers(fr)
	case *ssa.Panic:
		v := fr.get(in.X)
		site, fn := fr.repoSite()
		p.panics = append(p.panics, PanicRec{Msg: "explicit panic: " + show(v), Site: site, Fn: fn, Where: fr.where(), Explicit: true})
		panic(goPanic{v: v})
	case *ssa.Send:
		ch := fr.get(in.Chan).(*Chan)
		if ch == nil {
			panic(unmodelled{"send on nil channel"})
		}
		ch.Q = append(ch.Q, fr.get(in.X))
	case *ssa.Store:
		p.store(fr, fr.get(in.Addr), fr.get(in.Val))
	case *ssa.If:
		succ := 1
		if p.Branch(termOf(fr.get(in.Cond)), fr) {
			succ = 0
		}
		fr.prevBlock, fr.block = fr.block, fr.block.Succs[succ]
		return kJump
	case *ssa.Jump:
		fr.prevBlock, fr.block = fr.block, fr.block.Succs[0]
		return kJump
	case *ssa.Defer:
		fn, args := p.prepareCall(fr, &in.Call)
		fr.defers = append(fr.defers, &deferred{fn: fn, args: args, pos: in.Pos()})
	case *ssa.Go:
		fn, args := p.prepareCall(fr, &in.Call)
		p.spawn(fr, fn, args)
	case *ssa.MakeChan:
		n, _ := constInt(fr.get(in.Size))
		fr.set(in, &Chan{Cap: int(n)})
	case *ssa.Alloc:
		addr := new(Value)
		*addr = zero(in.Type().Underlying().(*types.Pointer).Elem())
		fr.set(in, addr)
	case *ssa.MakeSlice:
		ln := p.allocSize(fr, fr.get(in.Len), "makeslice: len out of range")
		cp := ln
		if in.Cap != in.Len {
			cp = p.allocSize(fr, fr.get(in.Cap), "makeslice: cap out of range")
			if cp < ln {
				p.raise(fr, "makeslice: cap out of range")
			}
		}
		a := make([]Value, cp)
		z := zero(in.Type().Underlying().(*types.Slice).Elem())
		_, agg1 := z.(Struct)
		_, agg2 := z.(Array)
		for i := range a {
			if agg1 || agg2 {
				a[i] = copyVal(z)
			} else {
				a[i] = z
			}
		}
		fr.set(in, Slice{A: a[:ln]})
	case *ssa.MakeMap:
		fr.set(in, newMap())
	case *ssa.Range:
		fr.set(in, p.rangeIter(fr, fr.get(in.X), in.X.Type()))
	case *ssa.Next:
		fr.set(in, fr.get(in.Iter).(iterator).next(p, fr))
	case *ssa.FieldAddr:
		ptr := fr.get(in.X).(*Value)
		if ptr == nil {
			p.raise(fr, "invalid memory address or nil pointer dereference")
		}
		fr.set(in, &(*ptr).(Struct)[in.Field])
	case *ssa.Field:
		fr.set(in, copyVal(fr.get(in.X).(Struct)[in.Field]))
	case *ssa.IndexAddr:
		fr.set(in, p.indexAddr(fr, in, fr.get(in.X), fr.get(in.Index)))
	case *ssa.Index:
		fr.set(in, p.index(fr, in, fr.get(in.X), fr.get(in.Index)))
	case *ssa.Lookup:
		fr.set(in, p.lookup(fr, in, fr.get(in.X), fr.get(in.Index)))
	case *ssa.MapUpdate:
		m := fr.get(in.Map).(*Map)
		if m == nil {
			p.raise(fr, "assignment to entry in nil map")
		}
		p.mapSet(fr, m, fr.get(in.Key), copyVal(fr.get(in.Value)))
	case *ssa.TypeAssert:
		fr.set(in, p.typeAssert(fr, in, fr.get(in.X).(Iface)))
	case *ssa.MakeClosure:
		var env []Value
		for _, b := range in.Bindings {
			env = append(env, fr.get(b))
		}
		fr.set(in, &Closure{Fn: in.Fn.(*ssa.Function), Env: env})
	case *ssa.Select:
		fr.set(in, p.selectInstr(fr, in))
	default:
		panic(unmodelled{fmt.Sprintf("instruction %T at %s", instr, fr.where())})
	}
	return kNext
}

func (p *Path) selectInstr(fr *frame, in *ssa.Select) Value {
	// a select whose receive channels are all empty and that has a default (or is only waited on for cancellation) takes default
	if !in.Blocking {
		r := Tuple{mkInt(-1), sym.False}
		for _, st := range in.States {
			if st.Dir == types.RecvOnly {
				r = append(r, zero(st.Chan.Type().Underlying().(*types.Chan).Elem()))
			}
		}
		return r
	}
	panic(unmodelled{"blocking select at " + fr.where()})
}

func (p *Path) spawn(fr *frame, fn Value, args []Value) {
	if p.GoHook != nil {
		p.GoHook(fr, fn, args)
		return
	}
	if p.bounds["go_inline"] == 1 {
		// the spawned function runs to completion at the spawn point (sound only for goroutines that do not
		// synchronise with their parent; harnesses that set this bound say so)
		p.call(fr, fn, args)
		return
	}
	panic(unmodelled{"go statement at " + fr.where()})
}

// ------------------------------------------------------------------ memory

// SymPtr addresses element Idx (symbolic, in range) of a window of scalar cells.
type SymPtr struct {
	Cells []Value
	Idx   *sym.Term // 64-bit
}

func (p *Path) load(fr *frame, ptr Value) Value {
	switch a := ptr.(type) {
	case *Value:
		if a == nil {
			p.raise(fr, "invalid memory address or nil pointer dereference")
		}
		return copyVal(*a)
	case *SymPtr:
		// ite chain over the window
		var r *sym.Term
		for i := len(a.Cells) - 1; i >= 0; i-- {
			c := a.Cells[i].(*sym.Term)
			if r == nil {
				r = c
			} else {
				r = sym.Ite(sym.Eq(a.Idx, mkInt(int64(i))), c, r)
			}
		}
		return r
	}
	panic(engineBug{fmt.Sprintf("load from %T at %s", ptr, fr.where())})
}

func (p *Path) store(fr *frame, ptr Value, v Value) {
	switch a := ptr.(type) {
	case *Value:
		if a == nil {
			p.raise(fr, "invalid memory address or nil pointer dereference")
		}
		storeInto(a, v)
	case *SymPtr:
		nv := v.(*sym.Term)
		for i := range a.Cells {
			a.Cells[i] = sym.Ite(sym.Eq(a.Idx, mkInt(int64(i))), nv, a.Cells[i].(*sym.Term))
		}
	default:
		panic(engineBug{fmt.Sprintf("store to %T at %s", ptr, fr.where())})
	}
}

// toIndex widens an index value of any integer type to a 64-bit term.
func toIndex(v Value, t types.Type) *sym.Term {
	x := termOf(v)
	if x.W == 64 {
		return x
	}
	if isUnsigned(t) {
		return sym.ZeroExt(x, 64)
	}
	return sym.SignExt(x, 64)
}

// checkIndex branches on the bounds check and returns a concrete index when the index is constant, or -1.
func (p *Path) boundsCheck(fr *frame, idx *sym.Term, n int, what string) {
	ok := sym.ULt(idx, mkInt(int64(n)))
	if !p.Branch(ok, fr) {
		if idx.IsConst() {
			p.raise(fr, fmt.Sprintf("index out of range [%d] with length %d", idx.Signed(), n))
		}
		p.raise(fr, fmt.Sprintf("index out of range [symbolic] with length %d", n))
	}
}

func scalarCells(a []Value) bool {
	for _, c := range a {
		if _, ok := c.(*sym.Term); !ok {
			return false
		}
	}
	return true
}

func (p *Path) indexAddr(fr *frame, in *ssa.IndexAddr, x Value, idxv Value) Value {
	var cells []Value
	switch x := x.(type) {
	case Slice:
		cells = x.A
	case *Value:
		if x == nil {
			p.raise(fr, "invalid memory address or nil pointer dereference")
		}
		cells = (*x).(Array)
	default:
		panic(engineBug{fmt.Sprintf("IndexAddr on %T", x)})
	}
	idx := toIndex(idxv, in.Index.Type())
	p.boundsCheck(fr, idx, len(cells), "index")
	if idx.IsConst() {
		return &cells[idx.C]
	}
	if scalarCells(cells) {
		return &SymPtr{Cells: cells, Idx: idx}
	}
	k := p.DecideValue(idx, 0, int64(len(cells)-1), fr)
	return &cells[k]
}

func (p *Path) index(fr *frame, in *ssa.Index, x Value, idxv Value) Value {
	idx := toIndex(idxv, in.Index.Type())
	switch x := x.(type) {
	case Array:
		p.boundsCheck(fr, idx, len(x), "index")
		if idx.IsConst() {
			return copyVal(x[idx.C])
		}
		if scalarCells(x) {
			return p.load(fr, &SymPtr{Cells: x, Idx: idx})
		}
		return copyVal(x[p.DecideValue(idx, 0, int64(len(x)-1), fr)])
	case string, *Str:
		return p.strIndex(fr, x, idx)
	}
	panic(engineBug{fmt.Sprintf("Index on %T", x)})
}

func (p *Path) strIndex(fr *frame, s Value, idx *sym.Term) Value {
	n := strLen(s)
	p.boundsCheck(fr, idx, n, "index")
	if idx.IsConst() {
		return strAt(s, int(idx.C))
	}
	b := strBytes(s)
	var r *sym.Term
	for i := n - 1; i >= 0; i-- {
		if r == nil {
			r = b[i]
		} else {
			r = sym.Ite(sym.Eq(idx, mkInt(int64(i))), b[i], r)
		}
	}
	return r
}

func (p *Path) slice(fr *frame, in *ssa.Slice, x, lov, hiv, maxv Value) Value {
	var ln, cp int
	var cells []Value
	isStr := false
	switch x := x.(type) {
	case Slice:
		cells = x.A
		ln, cp = len(x.A), cap(x.A)
	case *Value:
		if x == nil {
			p.raise(fr, "invalid memory address or nil pointer dereference")
		}
		cells = (*x).(Array)
		ln, cp = len(cells), len(cells)
	case string, *Str:
		isStr = true
		ln = strLen(x)
		cp = ln
	case *FmtStr:
		panic(unmodelled{"slicing an opaque formatted string at " + fr.where()})
	default:
		panic(engineBug{fmt.Sprintf("Slice on %T", x)})
	}
	lo, hi, max := 0, ln, cp
	// Go checks: 0 <= lo <= hi <= max <= cap
	conc := func(v Value, t types.Type, upper int, dflt int) int {
		if v == nil {
			return dflt
		}
		idx := toIndex(v, t)
		okc := sym.ULe(idx, mkInt(int64(upper)))
		if !p.Branch(okc, fr) {
			p.raise(fr, fmt.Sprintf("slice bounds out of range [:%s] with capacity %d", idx, upper))
		}
		if idx.IsConst() {
			return int(idx.C)
		}
		return int(p.DecideValue(idx, 0, int64(upper), fr))
	}
	if maxv != nil {
		max = conc(maxv, in.Max.Type(), cp, cp)
	}
	if hiv != nil {
		hi = conc(hiv, in.High.Type(), max, ln)
	} else if isStr {
		hi = ln
	}
	if lov != nil {
		lo = conc(lov, in.Low.Type(), hi, 0)
	}
	if isStr {
		return strSlice(x, lo, hi)
	}
	if s, ok := x.(Slice); ok && s.A == nil {
		return Slice{}
	}
	return Slice{A: cells[lo:hi:max]}
}

// allocSize turns a make() size into a concrete number, reporting symbolic sizes.
func (p *Path) allocSize(fr *frame, v Value, msg string) int {
	t := termOf(v)
	if t.W != 64 {
		t = sym.SignExt(t, 64)
	}
	if t.IsConst() {
		if t.Signed() < 0 {
			p.raise(fr, msg)
		}
		if t.Signed() > 1<<26 {
			panic(unmodelled{fmt.Sprintf("concrete allocation of %d elements at %s", t.Signed(), fr.where())})
		}
		return int(t.Signed())
	}
	if p.Branch(sym.SLt(t, mkInt(0)), fr) {
		p.raise(fr, msg)
	}
	return p.symbolicAlloc(fr, t)
}

// ------------------------------------------------------------------ maps

func (p *Path) mapFind(fr *frame, m *Map, key Value, keyT types.Type) *mapEntry {
	if m == nil {
		return nil
	}
	if ks, ok := keyString(key); ok {
		if e := m.index[ks]; e != nil {
			return e
		}
		// symbolic keys stored in the map may still be equal to this concrete key
		for _, e := range m.entries {
			if e.deleted {
				continue
			}
			if _, conc := keyString(e.k); conc {
				continue
			}
			if p.Branch(p.equals(fr, e.k, key), fr) {
				return e
			}
		}
		return nil
	}
	for _, e := range m.entries {
		if e.deleted {
			continue
		}
		if p.Branch(p.equals(fr, e.k, key), fr) {
			return e
		}
	}
	return nil
}

func (p *Path) mapSet(fr *frame, m *Map, key, val Value) {
	if e := p.mapFind(fr, m, key, nil); e != nil {
		e.v = val
		return
	}
	e := &mapEntry{k: copyVal(key), v: val}
	m.entries = append(m.entries, e)
	if ks, ok := keyString(key); ok {
		m.index[ks] = e
	}
	m.n++
}

func (p *Path) mapDelete(fr *frame, m *Map, key Value) {
	if e := p.mapFind(fr, m, key, nil); e != nil {
		e.deleted = true
		if ks, ok := keyString(e.k); ok {
			delete(m.index, ks)
		}
		m.n--
	}
}

func (p *Path) lookup(fr *frame, in *ssa.Lookup, x, key Value) Value {
	switch x := x.(type) {
	case *Map:
		mt := in.X.Type().Underlying().(*types.Map)
		e := p.mapFind(fr, x, key, mt.Key())
		var v Value
		if e != nil {
			v = copyVal(e.v)
		} else {
			v = zero(mt.Elem())
		}
		if in.CommaOk {
			return Tuple{v, sym.Bool(e != nil)}
		}
		return v
	case string, *Str:
		return p.strIndex(fr, x, toIndex(key, in.Index.Type()))
	}
	panic(engineBug{fmt.Sprintf("Lookup on %T", x)})
}

// ------------------------------------------------------------------ iteration

type iterator interface {
	next(p *Path, fr *frame) Value
}

type mapIter struct {
	m    *Map
	snap []*mapEntry
	i    int
}

func (it *mapIter) next(p *Path, fr *frame) Value {
	for it.i < len(it.snap) {
		e := it.snap[it.i]
		it.i++
		if e.deleted {
			continue
		}
		return Tuple{sym.True, copyVal(e.k), copyVal(e.v)}
	}
	return Tuple{sym.False, nil, nil}
}

type strIter struct {
	s Value
	i int
}

func (it *strIter) next(p *Path, fr *frame) Value {
	n := strLen(it.s)
	if it.i >= n {
		return Tuple{sym.False, mkInt(0), sym.Const(32, 0)}
	}
	if s, ok := it.s.(string); ok {
		for i, r := range s[it.i:] {
			_ = i
			pos := it.i
			it.i += len(string(r))
			if r == 0xFFFD {
				// invalid byte: advance by one
				it.i = pos + 1
				if len(s[pos:]) >= 3 && s[pos:pos+3] == "�" {
					it.i = pos + 3
				}
			}
			return Tuple{sym.True, mkInt(int64(pos)), sym.Const(32, uint64(r))}
		}
	}
	b := strAt(it.s, it.i)
	pos := it.i
	if p.Branch(sym.ULt(b, sym.Byte(0x80)), fr) {
		it.i++
		return Tuple{sym.True, mkInt(int64(pos)), sym.ZeroExt(b, 32)}
	}
	// non-ASCII lead byte: decode with the real unicode/utf8 code
	dec := p.eng.FindFunc("unicode/utf8.DecodeRuneInString")
	res := p.callFn(fr, dec, []Value{strSlice(it.s, pos, n)}, nil).(Tuple)
	size := termOf(res[1])
	k := int64(1)
	if size.IsConst() {
		k = size.Signed()
	} else {
		k = p.DecideValue(size, 1, 4, fr)
	}
	it.i += int(k)
	return Tuple{sym.True, mkInt(int64(pos)), res[0]}
}

func (p *Path) rangeIter(fr *frame, x Value, t types.Type) iterator {
	switch x := x.(type) {
	case *Map:
		it := &mapIter{m: x}
		if x != nil {
			it.snap = append(it.snap, x.entries...)
			if p.MapOrderHook != nil {
				it.snap = p.MapOrderHook(fr, it.snap)
			}
		}
		return it
	case string, *Str:
		return &strIter{s: x}
	}
	panic(unmodelled{fmt.Sprintf("range over %T at %s", x, fr.where())})
}

// ------------------------------------------------------------------ type assertions

func (e *Engine) implements(t types.Type, it *types.Interface) bool {
	type k struct {
		t  types.Type
		it *types.Interface
	}
	key := k{t, it}
	if v, ok := e.implCache.Load(key); ok {
		return v.(bool)
	}
	m, _ := types.MissingMethod(t, it, true)
	r := m == nil
	e.implCache.Store(key, r)
	return r
}

func (p *Path) typeAssert(fr *frame, in *ssa.TypeAssert, x Iface) Value {
	ok := false
	if x.T != nil {
		if it, isI := in.AssertedType.Underlying().(*types.Interface); isI {
			if x.T == runtimeErrorType {
				ok = it.NumMethods() <= 1 // error / interface{}
			} else {
				ok = p.eng.implements(x.T, it)
			}
		} else {
			ok = types.Identical(x.T, in.AssertedType)
		}
	}
	var v Value
	if ok {
		if _, isI := in.AssertedType.Underlying().(*types.Interface); isI {
			v = x
		} else {
			v = copyVal(x.V)
		}
	} else if in.CommaOk {
		v = zero(in.AssertedType)
	} else {
		msg := "interface conversion: "
		if x.T == nil {
			msg += "interface is nil, not " + in.AssertedType.String()
		} else {
			msg += "interface is " + x.T.String() + ", not " + in.AssertedType.String()
		}
		p.raise(fr, msg)
	}
	if in.CommaOk {
		return Tuple{v, sym.Bool(ok)}
	}
	return v
}

// sortedKeys is a small helper for deterministic output.
func sortedKeys[M ~map[string]V, V any](m M) []string {
	ks := make([]string, 0, len(m))
	for k := range m {
		ks = append(ks, k)
	}
	sort.Strings(ks)
	return ks
}
