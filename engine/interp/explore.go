package interp

import (
	"fmt"
	"go/types"
	"os"
	"runtime/debug"
	"sort"
	"strings"
	"sync"
	"time"

	"golang.org/x/tools/go/ssa"

	"verif/engine/solver"
	"verif/engine/sym"
)

// ------------------------------------------------------------------ path

type Input struct {
	Name  string
	Kind  string // bool int64 int32 int byte string bytes choice
	Term  *sym.Term
	Bytes []*sym.Term
	Len   int
}

type Violation struct {
	Label   string            `json:"label"`
	Site    string            `json:"site"`
	SiteFn  string            `json:"site_fn"`
	SiteSrc string            `json:"site_src"`
	Where   string            `json:"where"`
	Kind    string            `json:"kind"` // assert | panic | alloc
	Msg     string            `json:"msg,omitempty"`
	Inputs  map[string]any    `json:"inputs"`
	Path    []int64           `json:"decisions"`
	Trace   []string          `json:"trace,omitempty"`
	Details map[string]string `json:"details,omitempty"`
}

type PanicRec struct {
	Msg       string
	Site      string
	Fn        string
	Where     string
	Explicit  bool
	Recovered bool
}

type decision struct {
	kind byte // 'b' branch, 'v' value
	val  int64
}

type Path struct {
	eng      *Engine
	shared   bool
	sol      *solver.Solver
	sol2     *solver.Solver // fallback (integer encoding), synced lazily
	pcSent2  int
	sol2Used bool

	globals map[*ssa.Global]*Value
	inited  map[*ssa.Package]bool

	prefix    []int64
	decisions []int64
	pc        []*sym.Term
	pcSent    int
	model     map[string]uint64
	lastModel map[string]uint64
	curWhere  string
	evalMemo  map[*sym.Term]uint64

	inputs     []*Input
	nameCount  map[string]int
	reach      map[string]bool
	violations []Violation
	panics     []PanicRec
	trace      []string
	bounds     map[string]int
	funcs      map[string]string
	models     map[string]int
	notes      []string

	steps int64
	depth int

	ex *Explorer

	GoHook        func(fr *frame, fn Value, args []Value)
	RecvHook      func(fr *frame, ch *Chan, elem types.Type) (Value, bool)
	MapOrderHook  func(fr *frame, es []*mapEntry) []*mapEntry
	LockHook      func(fr *frame, mu *Value, op string)
	locks         map[*Value]*lockState
	lockCb        Value // zzvf.OnLock
	inLockCb      bool
	ClockHook     func(fr *frame) Value
	UnmarshalHook func(fr *frame, enc string, data Value, dst Iface) (Value, bool)

	state map[string]interface{} // scratch for intrinsics (hash states, id counters…)
}

func (p *Path) freshName(base string) string {
	n := p.nameCount[base]
	p.nameCount[base] = n + 1
	if n == 0 {
		return base
	}
	return fmt.Sprintf("%s#%d", base, n)
}

// sync sends the not-yet-sent part of the path condition to the solver.
func (p *Path) sync() {
	for p.pcSent < len(p.pc) {
		p.sol.Assert(p.pc[p.pcSent])
		p.pcSent++
	}
}

func (p *Path) addPC(c *sym.Term) {
	if c.IsTrue() {
		return
	}
	p.pc = append(p.pc, c)
	if p.model != nil {
		if sym.Eval(c, p.model, p.evalMemo) != 1 {
			p.model = nil
			p.evalMemo = nil
		}
	}
}

// feasible asks whether pc ∧ c has a model; unknown counts as inconclusive (ends the run as not exhaustive).
func (p *Path) feasible(c *sym.Term) bool {
	if p.model != nil && sym.Eval(c, p.model, p.evalMemo) == 1 {
		p.lastModel = p.model
		return true
	}
	p.sync()
	r, m := p.sol.Check(c)
	if p.sol.Restarted {
		p.sol.Restarted = false
		p.pcSent = 0
	}
	if r == solver.Unknown && p.sol2 != nil {
		if !p.sol2Used {
			p.sol2.Reset()
			p.sol2Used = true
			p.pcSent2 = 0
		}
		for p.pcSent2 < len(p.pc) {
			p.sol2.Assert(p.pc[p.pcSent2])
			p.pcSent2++
		}
		r, m = p.sol2.Check(c)
		if p.sol2.Restarted {
			p.sol2.Restarted = false
			p.pcSent2 = 0
		}
		p.ex.addFallback()
	}
	if r == solver.Unknown {
		// last resort: the primary solver once more with twenty times its time limit
		p.sync()
		r, m = p.sol.CheckLong(c, 20)
		if p.sol.Restarted {
			p.sol.Restarted = false
			p.pcSent = 0
		}
	}
	switch r {
	case solver.Sat:
		if p.model == nil {
			// a model of pc ∧ c is in particular a model of pc
			p.model = m
			p.evalMemo = map[*sym.Term]uint64{}
		}
		p.lastModel = m
		return true
	case solver.Unsat:
		return false
	}
	panic(unmodelled{"solver returned unknown at " + p.curWhere})
}

func (p *Path) replaying() bool { return len(p.decisions) < len(p.prefix) }

// Branch decides a Boolean condition, forking when both outcomes are feasible.
func (p *Path) Branch(c *sym.Term, fr *frame) bool {
	if c.IsConst() {
		return c.C == 1
	}
	if p.shared {
		panic(engineBug{"symbolic branch during shared initialisation"})
	}
	if p.replaying() {
		v := p.prefix[len(p.decisions)]
		p.decisions = append(p.decisions, v)
		if v == 1 {
			p.addPC(c)
		} else {
			p.addPC(sym.Not(c))
		}
		return v == 1
	}
	if len(p.decisions) >= p.eng.MaxDecisions {
		panic(unmodelled{"decision budget exceeded (unwinding) at " + fr.where()})
	}
	nc := sym.Not(c)
	p.curWhere = fr.where()
	if debugDecisions {
		fmt.Fprintf(os.Stderr, "DECISION branch #%d at %s\n", len(p.decisions), fr.where())
	}
	var t, f bool
	if p.model != nil {
		if sym.Eval(c, p.model, p.evalMemo) == 1 {
			t = true
			f = p.feasible(nc)
		} else {
			f = true
			t = p.feasible(c)
		}
	} else {
		t = p.feasible(c)
		if !t {
			f = true
		} else {
			f = p.feasible(nc)
		}
	}
	p.ex.addTransitions(1)
	switch {
	case t && f:
		// take the side the cached model satisfies, queue the other
		take := true
		if p.model != nil && sym.Eval(c, p.model, p.evalMemo) != 1 {
			take = false
		}
		other := int64(1)
		if take {
			other = 0
		}
		p.ex.push(append(append([]int64{}, p.decisions...), other))
		if take {
			p.decisions = append(p.decisions, 1)
			p.addPC(c)
		} else {
			p.decisions = append(p.decisions, 0)
			p.addPC(nc)
		}
		return take
	case t:
		p.decisions = append(p.decisions, 1)
		p.addPC(c)
		return true
	case f:
		p.decisions = append(p.decisions, 0)
		p.addPC(nc)
		return false
	}
	panic(pathEnd{"infeasible path condition"})
}

// DecideValue case-splits a term over its feasible values in [lo,hi] (the caller has established the range).
func (p *Path) DecideValue(t *sym.Term, lo, hi int64, fr *frame) int64 {
	if t.IsConst() {
		return t.Signed()
	}
	if p.replaying() {
		v := p.prefix[len(p.decisions)]
		p.decisions = append(p.decisions, v)
		p.addPC(sym.Eq(t, sym.Const(t.W, uint64(v))))
		return v
	}
	if len(p.decisions) >= p.eng.MaxDecisions {
		panic(unmodelled{"decision budget exceeded (unwinding) at " + fr.where()})
	}
	var vals []int64
	p.curWhere = fr.where()
	excl := sym.True
	for {
		if !p.feasible(excl) {
			break
		}
		m := p.lastModel
		if p.model != nil && sym.Eval(excl, p.model, p.evalMemo) == 1 {
			m = p.model
		}
		v := sym.Eval(t, m, map[*sym.Term]uint64{})
		sv := sym.Const(t.W, v).Signed()
		if sv < lo || sv > hi {
			panic(engineBug{fmt.Sprintf("DecideValue: value %d outside [%d,%d] at %s", sv, lo, hi, fr.where())})
		}
		vals = append(vals, sv)
		excl = sym.And(excl, sym.Ne(t, sym.Const(t.W, v)))
		if int64(len(vals)) > hi-lo+1 {
			panic(engineBug{"DecideValue: too many values"})
		}
	}
	if len(vals) == 0 {
		panic(pathEnd{"infeasible path condition"})
	}
	sort.Slice(vals, func(i, j int) bool { return vals[i] < vals[j] })
	p.ex.addTransitions(len(vals))
	for _, v := range vals[1:] {
		p.ex.push(append(append([]int64{}, p.decisions...), v))
	}
	v := vals[0]
	p.decisions = append(p.decisions, v)
	p.addPC(sym.Eq(t, sym.Const(t.W, uint64(v))))
	return v
}

// Choice is a shape decision among n alternatives, all feasible.
func (p *Path) Choice(n int) int {
	if n <= 1 {
		return 0
	}
	if p.replaying() {
		v := p.prefix[len(p.decisions)]
		p.decisions = append(p.decisions, v)
		return int(v)
	}
	if debugDecisions {
		fmt.Fprintf(os.Stderr, "DECISION choice #%d of %d\n", len(p.decisions), n)
	}
	p.ex.addTransitions(n)
	for i := 1; i < n; i++ {
		p.ex.push(append(append([]int64{}, p.decisions...), int64(i)))
	}
	p.decisions = append(p.decisions, 0)
	return 0
}

// Assume adds c to the path condition; the path ends when that is infeasible.
func (p *Path) Assume(c *sym.Term) {
	if c.IsConst() {
		if c.C == 0 {
			panic(pathEnd{"assumption false"})
		}
		return
	}
	if !p.replaying() {
		if !p.feasible(c) {
			panic(pathEnd{"assumption infeasible"})
		}
	}
	p.addPC(c)
}

// concreteInputs evaluates all harness inputs under a model.
func (p *Path) concreteInputs(m map[string]uint64) map[string]any {
	out := map[string]any{}
	memo := map[*sym.Term]uint64{}
	for _, in := range p.inputs {
		switch in.Kind {
		case "string", "bytes":
			b := make([]byte, len(in.Bytes))
			for i, t := range in.Bytes {
				b[i] = byte(sym.Eval(t, m, memo))
			}
			if in.Kind == "string" {
				out[in.Name] = string(b)
				// JSON cannot carry arbitrary bytes in strings faithfully; add hex too
				out[in.Name+"$hex"] = fmt.Sprintf("%x", b)
			} else {
				out[in.Name+"$hex"] = fmt.Sprintf("%x", b)
			}
		case "bool":
			out[in.Name] = sym.Eval(in.Term, m, memo) == 1
		case "choice":
			out[in.Name] = int64(in.Len)
		default:
			v := sym.Eval(in.Term, m, memo)
			out[in.Name] = sym.Const(in.Term.W, v).Signed()
		}
	}
	return out
}

// Check asserts c on the current path: a model of pc ∧ ¬c is a violation.
func (p *Path) Check(c *sym.Term, label string, fr *frame) {
	if c.IsTrue() {
		p.ex.addObligation()
		return
	}
	p.ex.addObligation()
	if p.replaying() {
		// the assertion was already examined when this prefix was first executed
		p.addPC(c)
		return
	}
	p.curWhere = "assert " + label + " at " + fr.where()
	if c.IsFalse() || p.feasible(sym.Not(c)) {
		var m map[string]uint64
		if c.IsFalse() {
			// the path condition is feasible by construction; a model is only needed to print inputs
			if p.model != nil {
				m = p.model
			} else if p.ex.wantModel(label) {
				if !p.feasible(sym.True) {
					panic(pathEnd{"infeasible"})
				}
				m = p.model
			} else {
				m = map[string]uint64{}
			}
		} else {
			m = p.lastModel
		}
		site, sfn := fr.repoSite()
		p.violations = append(p.violations, Violation{
			Label: label, Site: site, SiteFn: sfn, SiteSrc: p.eng.srcLine(site), Where: fr.where(), Kind: "assert",
			Inputs: p.concreteInputs(m), Path: append([]int64{}, p.decisions...),
			Trace: append([]string{}, p.trace...),
		})
	}
	if c.IsFalse() {
		panic(pathEnd{"assertion failed on every input of this path"})
	}
	if !p.feasible(c) {
		panic(pathEnd{"assertion failed on every input of this path"})
	}
	p.addPC(c)
}

// symbolicAlloc handles make() with a symbolic, non-negative size.
func (p *Path) symbolicAlloc(fr *frame, t *sym.Term) int {
	limit := int64(64 << 20)
	if b, ok := p.bounds["alloc_limit"]; ok {
		limit = int64(b)
	}
	if !p.replaying() && p.feasible(sym.SLt(mkInt(limit), t)) {
		site, sfn := fr.repoSite()
		p.violations = append(p.violations, Violation{
			Label: "alloc-sized-by-input", Site: site, SiteFn: sfn, SiteSrc: p.eng.srcLine(site), Where: fr.where(), Kind: "alloc",
			Msg:    fmt.Sprintf("allocation size can exceed %d elements", limit),
			Inputs: p.concreteInputs(p.lastModel), Path: append([]int64{}, p.decisions...),
		})
	}
	maxc := int64(64)
	if b, ok := p.bounds["alloc_concretize"]; ok {
		maxc = int64(b)
	}
	if !p.Branch(sym.SLe(t, mkInt(maxc)), fr) {
		p.note(fmt.Sprintf("allocation sizes above %d not explored at %s", maxc, fr.where()))
		panic(pathEnd{"allocation size above concretisation bound"})
	}
	return int(p.DecideValue(t, 0, maxc, fr))
}

func (p *Path) note(s string) {
	for _, n := range p.notes {
		if n == s {
			return
		}
	}
	p.notes = append(p.notes, s)
}

// ------------------------------------------------------------------ explorer

type PathResult struct {
	Decisions  []int64
	Outcome    string // ok | ended | panic | inconclusive
	Reason     string
	Violations []Violation
	Reach      []string
	Steps      int64
	Inputs     map[string]any
	Trace      []string
}

type Explorer struct {
	Eng     *Engine
	Entry   *ssa.Function
	Workers int
	Solver  string
	Timeout int // ms per query
	Budget  time.Duration
	Verbose bool

	mu          sync.Mutex
	cond        *sync.Cond
	work        [][]int64
	active      int
	stopped     bool
	transitions int64
	obligations int64

	Results           []PathResult
	Violations        []Violation
	Inconclusive      []string
	Reach             map[string]int
	Bounds            map[string]int
	Funcs             map[string]string
	Models            map[string]int
	Notes             []string
	Paths             int
	EndedPaths        int
	PanicPaths        int
	Stats             solver.Stats
	Exhaustive        bool
	Fallbacks         int
	InconclusivePaths int
	modelCount        map[string]int
	Solver2           string
	Timeout2          int
	Wall              time.Duration
	MaxSamples        int
	PanicIsViolation  bool
}

func (ex *Explorer) push(prefix []int64) {
	ex.mu.Lock()
	ex.work = append(ex.work, prefix)
	ex.mu.Unlock()
	ex.cond.Signal()
}

func (ex *Explorer) addTransitions(n int) {
	ex.mu.Lock()
	ex.transitions += int64(n)
	ex.mu.Unlock()
}

// wantModel: full input models are computed for the first few violations of each label only.
func (ex *Explorer) wantModel(label string) bool {
	ex.mu.Lock()
	defer ex.mu.Unlock()
	if ex.modelCount == nil {
		ex.modelCount = map[string]int{}
	}
	ex.modelCount[label]++
	return ex.modelCount[label] <= 8
}

func (ex *Explorer) addFallback() {
	ex.mu.Lock()
	ex.Fallbacks++
	ex.mu.Unlock()
}

func (ex *Explorer) addObligation() {
	ex.mu.Lock()
	ex.obligations++
	ex.mu.Unlock()
}

func (ex *Explorer) Transitions() int64 { return ex.transitions }
func (ex *Explorer) Obligations() int64 { return ex.obligations }

func (ex *Explorer) Run() {
	ex.cond = sync.NewCond(&ex.mu)
	ex.Reach = map[string]int{}
	ex.Bounds = map[string]int{}
	ex.Funcs = map[string]string{}
	ex.Models = map[string]int{}
	if ex.MaxSamples == 0 {
		ex.MaxSamples = 6
	}
	if ex.Workers <= 0 {
		ex.Workers = 1
	}
	if ex.Timeout == 0 {
		ex.Timeout = 3000
	}
	if ex.Timeout2 == 0 {
		ex.Timeout2 = 30000
	}
	if ex.Solver2 == "" {
		ex.Solver2 = "cvc5-int"
	}
	start := time.Now()
	ex.work = [][]int64{{}}
	var wg sync.WaitGroup
	deadline := time.Time{}
	if ex.Budget > 0 {
		deadline = start.Add(ex.Budget)
	}
	for w := 0; w < ex.Workers; w++ {
		wg.Add(1)
		go func() {
			defer wg.Done()
			sol, err := solver.New(ex.Solver, ex.Timeout)
			if err != nil {
				fmt.Fprintln(os.Stderr, "solver:", err)
				return
			}
			defer sol.Close()
			var sol2 *solver.Solver
			if ex.Solver2 != "" && ex.Solver2 != "none" {
				sol2, err = solver.New(ex.Solver2, ex.Timeout2)
				if err != nil {
					fmt.Fprintln(os.Stderr, "solver2:", err)
					return
				}
				defer sol2.Close()
			}
			for {
				ex.mu.Lock()
				for len(ex.work) == 0 && ex.active > 0 && !ex.stopped {
					ex.cond.Wait()
				}
				if ex.stopped || (len(ex.work) == 0 && ex.active == 0) {
					ex.mu.Unlock()
					ex.cond.Broadcast()
					break
				}
				prefix := ex.work[len(ex.work)-1]
				ex.work = ex.work[:len(ex.work)-1]
				ex.active++
				ex.mu.Unlock()

				res, p := ex.runPath(sol, sol2, prefix)

				ex.mu.Lock()
				ex.active--
				ex.record(res, p)
				if !deadline.IsZero() && time.Now().After(deadline) {
					ex.stopped = true
				}
				ex.mu.Unlock()
				ex.cond.Broadcast()
			}
			ex.mu.Lock()
			st := sol.Stats
			if sol2 != nil {
				st.Queries += sol2.Stats.Queries
				st.Sat += sol2.Stats.Sat
				st.Unsat += sol2.Stats.Unsat
				st.Unknown += sol2.Stats.Unknown - 0
				st.Errors += sol2.Stats.Errors
				st.SolverNs += sol2.Stats.SolverNs
			}
			ex.Stats.Queries += st.Queries
			ex.Stats.Sat += st.Sat
			ex.Stats.Unsat += st.Unsat
			ex.Stats.Unknown += st.Unknown
			ex.Stats.Errors += st.Errors
			ex.Stats.SolverNs += st.SolverNs
			ex.mu.Unlock()
		}()
	}
	wg.Wait()
	ex.Wall = time.Since(start)
	ex.Exhaustive = !ex.stopped && len(ex.work) == 0 && len(ex.Inconclusive) == 0 && ex.Stats.Errors == 0
}

func (ex *Explorer) record(res PathResult, p *Path) {
	ex.Paths++
	switch res.Outcome {
	case "ended":
		ex.EndedPaths++
	case "panic":
		ex.PanicPaths++
	case "inconclusive":
		base := res.Reason
		if i := strings.Index(base, " [choices:"); i >= 0 {
			base = base[:i]
		}
		dup := false
		for _, o := range ex.Inconclusive {
			if strings.HasPrefix(o, base) {
				dup = true
			}
		}
		ex.InconclusivePaths++
		if !dup {
			ex.Inconclusive = append(ex.Inconclusive, res.Reason)
		}
	}
	for _, v := range res.Violations {
		ex.Violations = append(ex.Violations, v)
	}
	if res.Outcome != "inconclusive" && res.Outcome != "ended" {
		for _, r := range res.Reach {
			ex.Reach[r]++
		}
	}
	for k, v := range p.bounds {
		ex.Bounds[k] = v
	}
	for k, v := range p.funcs {
		ex.Funcs[k] = v
	}
	for k, v := range p.models {
		ex.Models[k] += v
	}
	for _, n := range p.notes {
		dup := false
		for _, o := range ex.Notes {
			if o == n {
				dup = true
			}
		}
		if !dup {
			ex.Notes = append(ex.Notes, n)
		}
	}
	if len(ex.Results) < ex.MaxSamples && res.Outcome == "ok" {
		ex.Results = append(ex.Results, res)
	}
	if ex.Verbose {
		fmt.Fprintf(os.Stderr, "path %d: %s %s decisions=%d steps=%d viol=%d\n", ex.Paths, res.Outcome, res.Reason, len(res.Decisions), res.Steps, len(res.Violations))
	}
}

func (ex *Explorer) newPath(sol *solver.Solver, prefix []int64) *Path {
	return &Path{
		eng: ex.Eng, sol: sol, ex: ex, prefix: prefix,
		globals: map[*ssa.Global]*Value{}, inited: map[*ssa.Package]bool{},
		nameCount: map[string]int{}, reach: map[string]bool{}, bounds: map[string]int{},
		state: map[string]interface{}{},
	}
}

func (ex *Explorer) runPath(sol, sol2 *solver.Solver, prefix []int64) (res PathResult, p *Path) {
	sol.Reset()
	p = ex.newPath(sol, prefix)
	p.sol2 = sol2
	defer func() {
		r := recover()
		res.Decisions = p.decisions
		res.Steps = p.steps
		res.Violations = p.violations
		for k := range p.reach {
			res.Reach = append(res.Reach, k)
		}
		sort.Strings(res.Reach)
		res.Trace = p.trace
		switch r := r.(type) {
		case nil:
			res.Outcome = "ok"
		case pathEnd:
			res.Outcome = "ended"
			res.Reason = r.reason
			if strings.HasPrefix(r.reason, "assertion failed") || strings.HasPrefix(r.reason, "crash") {
				res.Outcome = "ok"
			}
		case goPanic:
			res.Outcome = "panic"
			res.Reason = show(r.v)
			if ex.PanicIsViolation {
				var last PanicRec
				if n := len(p.panics); n > 0 {
					last = p.panics[n-1]
				}
				m := p.model
				if m == nil && !p.replaying() {
					func() {
						defer func() { recover() }()
						if p.feasible(sym.True) {
							m = p.model
						}
					}()
				}
				if m != nil {
					res.Violations = append(res.Violations, Violation{
						Label: "no-panic", Site: last.Site, SiteFn: last.Fn, SiteSrc: p.eng.srcLine(last.Site), Where: last.Where, Kind: "panic", Msg: last.Msg + " :: " + res.Reason,
						Inputs: p.concreteInputs(m), Path: append([]int64{}, p.decisions...), Trace: p.trace,
						Details: map[string]string{"fn": last.Fn},
					})
				}
			}
		case unmodelled:
			res.Outcome = "inconclusive"
			res.Reason = r.what
		case engineBug:
			res.Outcome = "inconclusive"
			res.Reason = "ENGINE BUG: " + r.what
		default:
			res.Outcome = "inconclusive"
			res.Reason = fmt.Sprintf("ENGINE CRASH: %v\n%s", r, debug.Stack())
		}
		if res.Outcome == "inconclusive" {
			var cs []string
			for _, in := range p.inputs {
				if in.Kind == "choice" {
					cs = append(cs, fmt.Sprintf("%s=%d", in.Name, in.Len))
				}
			}
			if len(cs) > 0 {
				res.Reason += " [choices: " + strings.Join(cs, " ") + "]"
			}
		}
		if res.Outcome == "ok" && p.model != nil {
			res.Inputs = p.concreteInputs(p.model)
		}
	}()
	var args []Value
	p.CallFn(ex.Entry, args)
	// a finished path must be feasible (it is, by construction) – keep a witness for the samples
	if p.model == nil && len(p.pc) > 0 && !p.replaying() {
		p.feasible(sym.True)
	}
	return
}

// lockState counts the holders of one mutex on this path (w: write lock, r: read locks).
type lockState struct{ w, r int }

// debugDecisions (GOSE_DEBUG_DECISIONS=1) logs where fresh decisions are taken.
var debugDecisions = os.Getenv("GOSE_DEBUG_DECISIONS") != ""
