package interp

import (
	"fmt"
	"go/constant"
	"go/types"
	"sort"
	"sync"

	"golang.org/x/tools/go/ssa"

	"verif/engine/sym"
)

// havoc builds an arbitrary value of type t: scalars symbolic, shapes (nil-ness, lengths) by case split within the
// bounds the harness set with zzvf.Bound: havoc_str (max string length, default 1), havoc_str_fixed (no length split),
// havoc_slice (max slice length, default 1), havoc_nil (1: pointers may be nil), havoc_depth (default 5).
func (p *Path) havoc(t types.Type, name string, depth int) Value {
	maxDepth := 5
	if b, ok := p.bounds["havoc_depth"]; ok {
		maxDepth = b
	}
	if depth > maxDepth {
		return zero(t)
	}
	switch tt := t.(type) {
	case *types.Named:
		if tt.Obj().Pkg() != nil && tt.Obj().Pkg().Path() == "time" && tt.Obj().Name() == "Time" {
			if p.bounds["havoc_time_symbolic"] != 1 {
				// a fixed instant (2024-05-06T07:08:09Z) unless the harness reasons about time
				return Struct{mkInt(0), mkInt(1714979289 + unixToInternal), (*Value)(nil)}
			}
			sec := p.newScalar(name+".unix", "int64", 64)
			// a sane instant: between year 1971 and 2200
			p.Assume(sym.And(sym.SLt(mkInt(31536000), sec), sym.SLt(sec, mkInt(7258118400))))
			return Struct{mkInt(0), sym.Add(sec, mkInt(unixToInternal)), (*Value)(nil)}
		}
		if isStringT(tt) && tt.Obj().Pkg() != nil && p.state["havoc_enums"] == true {
			// enum-like string types: one of the declared constants, or some other string
			if vals := enumValues(tt); len(vals) > 0 && p.enumBudget() {
				c := p.namedChoice(name+"$enum", len(vals)+1)
				if c < len(vals) {
					return vals[c]
				}
			}
		}
		return p.havoc(tt.Underlying(), name, depth)
	case *types.Alias:
		return p.havoc(types.Unalias(tt), name, depth)
	case *types.Basic:
		switch {
		case tt.Info()&types.IsBoolean != 0:
			return p.newScalar(name, "bool", 0)
		case tt.Info()&types.IsInteger != 0:
			w := widthOf(tt)
			kind := "int64"
			if w == 32 {
				kind = "int32"
			} else if w == 8 {
				kind = "byte"
			}
			return p.newScalar(name, kind, w)
		case tt.Info()&types.IsString != 0:
			max := 1
			if b, ok := p.bounds["havoc_str"]; ok {
				max = b
			}
			n := max
			if _, fixed := p.bounds["havoc_str_fixed"]; !fixed {
				n = p.namedChoice(name+"$len", max+1)
			}
			return mkStr(p.newBytes(name, "string", n))
		case tt.Info()&types.IsFloat != 0:
			return float64(0)
		}
		return zero(t)
	case *types.Pointer:
		if p.bounds["havoc_nil"] == 1 && p.nilDepthOK(depth) {
			if p.namedChoice(name+"$nil", 2) == 1 {
				return (*Value)(nil)
			}
		}
		c := new(Value)
		*c = p.havoc(tt.Elem(), name, depth+1)
		return c
	case *types.Slice:
		max := 1
		if b, ok := p.bounds["havoc_slice"]; ok {
			max = b
		}
		if eb, ok := tt.Elem().Underlying().(*types.Basic); ok && eb.Kind() == types.Uint8 {
			n := p.namedChoice(name+"$len", max+1)
			b := p.newBytes(name, "bytes", n)
			vs := make([]Value, n)
			for i := range b {
				vs[i] = b[i]
			}
			return Slice{A: vs}
		}
		n := p.namedChoice(name+"$len", max+1)
		if n == 0 && p.bounds["havoc_nil"] == 1 {
			return Slice{}
		}
		vs := make([]Value, n)
		for i := range vs {
			vs[i] = p.havoc(tt.Elem(), fmt.Sprintf("%s[%d]", name, i), depth+1)
		}
		return Slice{A: vs}
	case *types.Array:
		a := make(Array, tt.Len())
		for i := range a {
			a[i] = p.havoc(tt.Elem(), fmt.Sprintf("%s[%d]", name, i), depth+1)
		}
		return a
	case *types.Struct:
		s := make(Struct, tt.NumFields())
		for i := range s {
			f := tt.Field(i)
			if !f.Exported() {
				s[i] = zero(f.Type())
				continue
			}
			s[i] = p.havoc(f.Type(), name+"."+f.Name(), depth+1)
		}
		return s
	case *types.Map:
		m := newMap()
		if p.namedChoice(name+"$len", 2) == 1 {
			k := p.havoc(tt.Key(), name+".key", depth+1)
			v := p.havoc(tt.Elem(), name+".val", depth+1)
			m.entries = append(m.entries, &mapEntry{k: k, v: v})
			if ks, ok := keyString(k); ok {
				m.index[ks] = m.entries[0]
			}
			m.n = 1
		}
		return m
	}
	return zero(t)
}

// enumBudget: at most havoc_enum_fields (default 3) enum-typed fields per document are case-split over their constants.
func (p *Path) enumBudget() bool {
	n, _ := p.state["havoc_enum_used"].(int)
	max := 3
	if b, ok := p.bounds["havoc_enum_fields"]; ok {
		max = b
	}
	if n >= max {
		return false
	}
	p.state["havoc_enum_used"] = n + 1
	return true
}

// nilDepthOK: pointers deeper than havoc_nil_depth (default: unlimited) are always allocated.
func (p *Path) nilDepthOK(depth int) bool {
	if p.state["havoc_no_nil"] == true {
		return false
	}
	if b, ok := p.bounds["havoc_nil_depth"]; ok && depth > b {
		return false
	}
	if b, ok := p.bounds["havoc_nil_fields"]; ok {
		n, _ := p.state["havoc_nil_used"].(int)
		if n >= b {
			return false
		}
		p.state["havoc_nil_used"] = n + 1
	}
	return true
}

var enumCache sync.Map

// enumValues lists the string constants declared with exactly type t in t's package (at most 8).
func enumValues(t *types.Named) []string {
	if v, ok := enumCache.Load(t); ok {
		return v.([]string)
	}
	var out []string
	sc := t.Obj().Pkg().Scope()
	for _, n := range sc.Names() {
		if c, ok := sc.Lookup(n).(*types.Const); ok && types.Identical(c.Type(), t) && c.Val().Kind() == constant.String {
			out = append(out, constant.StringVal(c.Val()))
		}
	}
	sort.Strings(out)
	if len(out) > 8 {
		out = nil // large vocabularies (e.g. storage classes) are treated as free strings
	}
	enumCache.Store(t, out)
	return out
}

// marshalled is what json/xml.Marshal return: an opaque byte sequence that remembers the value.
type marshalled struct {
	enc string
	t   types.Type
	v   Value
}

func marshalBytes(enc string, t types.Type, v Value) Value {
	return Slice{A: []Value{&Handle{Kind: "marshalled", P: &marshalled{enc: enc, t: t, v: deepCopy(v, map[*Value]*Value{})}}}}
}

func asMarshalled(v Value) *marshalled {
	s, ok := v.(Slice)
	if !ok || len(s.A) != 1 {
		return nil
	}
	h, ok := s.A[0].(*Handle)
	if !ok || h.Kind != "marshalled" {
		return nil
	}
	return h.P.(*marshalled)
}

// deepCopy clones a value graph (pointers, slices, maps) so that a decoded value does not alias the encoded one.
func deepCopy(v Value, memo map[*Value]*Value) Value {
	switch x := v.(type) {
	case Struct:
		n := make(Struct, len(x))
		for i := range x {
			n[i] = deepCopy(x[i], memo)
		}
		return n
	case Array:
		n := make(Array, len(x))
		for i := range x {
			n[i] = deepCopy(x[i], memo)
		}
		return n
	case Slice:
		if x.A == nil {
			return x
		}
		n := make([]Value, len(x.A))
		for i := range x.A {
			n[i] = deepCopy(x.A[i], memo)
		}
		return Slice{A: n}
	case *Value:
		if x == nil {
			return x
		}
		if c, ok := memo[x]; ok {
			return c
		}
		c := new(Value)
		memo[x] = c
		*c = deepCopy(*x, memo)
		return c
	case *Map:
		if x == nil {
			return x
		}
		m := newMap()
		for _, e := range x.entries {
			if e.deleted {
				continue
			}
			ne := &mapEntry{k: deepCopy(e.k, memo), v: deepCopy(e.v, memo)}
			m.entries = append(m.entries, ne)
			if ks, ok := keyString(ne.k); ok {
				m.index[ks] = ne
			}
			m.n++
		}
		return m
	case Iface:
		return Iface{T: x.T, V: deepCopy(x.V, memo)}
	}
	return v
}

func init() {
	marshal := func(enc string) intrinsicFn {
		return func(p *Path, fr *frame, fn *ssa.Function, a []Value) Value {
			iv := a[0].(Iface)
			return Tuple{marshalBytes(enc, iv.T, iv.V), Iface{}}
		}
	}
	reg(marshal("json"), "encoding/json.Marshal", "encoding/json.MarshalIndent")
	reg(marshal("xml"), "encoding/xml.Marshal", "encoding/xml.MarshalIndent")
	unmarshal := func(enc string) intrinsicFn {
		return func(p *Path, fr *frame, fn *ssa.Function, a []Value) Value {
			dst := a[1].(Iface)
			if dst.T == nil {
				return p.makeError(fr, enc+": Unmarshal(nil)", nil)
			}
			ptrT, ok := dst.T.Underlying().(*types.Pointer)
			if !ok {
				return p.makeError(fr, enc+": Unmarshal(non-pointer)", nil)
			}
			target := dst.V.(*Value)
			if m := asMarshalled(a[0]); m != nil {
				// round trip of something the gateway encoded itself
				if types.Identical(m.t, ptrT.Elem()) || types.AssignableTo(m.t, ptrT.Elem()) {
					storeInto(target, deepCopy(m.v, map[*Value]*Value{}))
					return Iface{}
				}
				if pt, isPtr := m.t.Underlying().(*types.Pointer); isPtr && types.Identical(pt.Elem(), ptrT.Elem()) {
					src := m.v.(*Value)
					if src != nil {
						storeInto(target, deepCopy(*src, map[*Value]*Value{}))
						return Iface{}
					}
				}
				// same encoding, different Go type: structural decoding is not modelled
				panic(unmodelled{fmt.Sprintf("%s round trip from %s into %s at %s", enc, m.t, ptrT.Elem(), fr.where())})
			}
			// an empty input is never a document (both decoders report an error: "unexpected end of JSON input" / EOF)
			if sl, ok := a[0].(Slice); ok && len(sl.A) == 0 {
				return p.makeError(fr, enc+": unexpected end of input", nil)
			}
			// bytes that came from outside: either malformed, or an arbitrary value of the target type.
			// Types with their own decoder (policy documents) are decoded by the harness-side document model.
			if hook := p.UnmarshalHook; hook != nil {
				if r, handled := hook(fr, enc, a[0], dst); handled {
					return r
				}
			}
			name := p.freshName(enc + "doc")
			if p.namedChoice(name+"$malformed", 2) == 1 {
				return p.makeError(fr, enc+": malformed document", nil)
			}
			// request documents: enum-typed strings range over their declared constants (plus one other value)
			p.state["havoc_enums"] = true
			p.state["havoc_enum_used"] = 0
			p.state["havoc_nil_used"] = 0
			v := p.havoc(ptrT.Elem(), name, 0)
			p.state["havoc_enums"] = false
			storeInto(target, v)
			return Iface{}
		}
	}
	reg(unmarshal("json"), "encoding/json.Unmarshal")
	reg(unmarshal("xml"), "encoding/xml.Unmarshal")
	// zzvf.Havoc(ptr, name): fill *ptr with an arbitrary value of its type
	reg(func(p *Path, fr *frame, fn *ssa.Function, a []Value) Value {
		dst := a[0].(Iface)
		ptrT := dst.T.Underlying().(*types.Pointer)
		// values the harness asks for directly (backend results, caller attributes) follow the producer's contract:
		// pointers are allocated; absent (nil) elements are explored for decoded request documents only
		p.state["havoc_no_nil"] = true
		v := p.havoc(ptrT.Elem(), strArg(a[1]), 0)
		p.state["havoc_no_nil"] = false
		storeInto(dst.V.(*Value), v)
		return nil
	}, zz+"Havoc")
	// zzvf.Opaque(kind, v…): an opaque byte sequence standing for an encoded document
	reg(func(p *Path, fr *frame, fn *ssa.Function, a []Value) Value {
		return Slice{A: []Value{&Handle{Kind: "opaque:" + strArg(a[0])}}}
	}, zz+"OpaqueBytes")
}
