package interp

import (
	"crypto/hmac"
	"crypto/md5"
	"crypto/sha1"
	"crypto/sha256"
	"encoding/binary"
	"fmt"
	"go/types"
	"hash/crc32"
	"os"
	"strconv"
	"strings"

	"golang.org/x/tools/go/ssa"

	"verif/engine/sym"
)

// The harness API (package …/internal/zzvf) as seen by the engine.

const zz = "github.com/versity/versitygw/internal/zzvf."

func strArg(v Value) string {
	s, ok := v.(string)
	if !ok {
		panic(engineBug{"harness API name/label must be a constant string"})
	}
	return s
}

func intArg(v Value) int {
	n, ok := constInt(v)
	if !ok {
		panic(engineBug{"harness API bound must be a constant"})
	}
	return int(n)
}

func (p *Path) newScalar(name, kind string, w uint8) *sym.Term {
	n := p.freshName(name)
	t := sym.Var(n, w)
	p.inputs = append(p.inputs, &Input{Name: n, Kind: kind, Term: t})
	return t
}

func (p *Path) newBytes(name, kind string, n int) []*sym.Term {
	nm := p.freshName(name)
	b := make([]*sym.Term, n)
	for i := range b {
		b[i] = sym.Var(fmt.Sprintf("%s[%d]", nm, i), 8)
	}
	p.inputs = append(p.inputs, &Input{Name: nm, Kind: kind, Bytes: b})
	return b
}

func (p *Path) namedChoice(name string, n int) int {
	if debugDecisions && !p.replaying() {
		fmt.Fprintf(os.Stderr, "DECISION named %s\n", name)
	}
	c := p.Choice(n)
	nm := p.freshName(name)
	p.inputs = append(p.inputs, &Input{Name: nm, Kind: "choice", Len: c})
	return c
}

func variadicBools(v Value) []*sym.Term {
	s := v.(Slice)
	out := make([]*sym.Term, len(s.A))
	for i := range s.A {
		out[i] = termOf(s.A[i])
	}
	return out
}

func init() {
	reg(func(p *Path, fr *frame, fn *ssa.Function, a []Value) Value {
		return p.newScalar(strArg(a[0]), "bool", 0)
	}, zz+"Bool")
	reg(func(p *Path, fr *frame, fn *ssa.Function, a []Value) Value {
		return p.newScalar(strArg(a[0]), "int64", 64)
	}, zz+"Int64", zz+"Int")
	reg(func(p *Path, fr *frame, fn *ssa.Function, a []Value) Value {
		return p.newScalar(strArg(a[0]), "int32", 32)
	}, zz+"Int32")
	reg(func(p *Path, fr *frame, fn *ssa.Function, a []Value) Value {
		return p.newScalar(strArg(a[0]), "byte", 8)
	}, zz+"Byte")
	reg(func(p *Path, fr *frame, fn *ssa.Function, a []Value) Value {
		t := p.newScalar(strArg(a[0]), "int64", 64)
		lo, hi := intArg(a[1]), intArg(a[2])
		p.Assume(sym.And(sym.SLe(mkInt(int64(lo)), t), sym.SLe(t, mkInt(int64(hi)))))
		return t
	}, zz+"IntRange")
	reg(func(p *Path, fr *frame, fn *ssa.Function, a []Value) Value {
		lo, hi := intArg(a[1]), intArg(a[2])
		return mkInt(int64(lo + p.namedChoice(strArg(a[0]), hi-lo+1)))
	}, zz+"IntCase")
	reg(func(p *Path, fr *frame, fn *ssa.Function, a []Value) Value {
		return mkInt(int64(p.namedChoice(strArg(a[0]), intArg(a[1]))))
	}, zz+"Choice")
	reg(func(p *Path, fr *frame, fn *ssa.Function, a []Value) Value {
		name, max := strArg(a[0]), intArg(a[1])
		n := p.namedChoice(name+"$len", max+1)
		return mkStr(p.newBytes(name, "string", n))
	}, zz+"String")
	reg(func(p *Path, fr *frame, fn *ssa.Function, a []Value) Value {
		return mkStr(p.newBytes(strArg(a[0]), "string", intArg(a[1])))
	}, zz+"StringN")
	mkBytes := func(b []*sym.Term) Value {
		vs := make([]Value, len(b))
		for i := range b {
			vs[i] = b[i]
		}
		return Slice{A: vs}
	}
	reg(func(p *Path, fr *frame, fn *ssa.Function, a []Value) Value {
		name, max := strArg(a[0]), intArg(a[1])
		n := p.namedChoice(name+"$len", max+1)
		return mkBytes(p.newBytes(name, "bytes", n))
	}, zz+"Bytes")
	reg(func(p *Path, fr *frame, fn *ssa.Function, a []Value) Value {
		return mkBytes(p.newBytes(strArg(a[0]), "bytes", intArg(a[1])))
	}, zz+"BytesN")
	reg(func(p *Path, fr *frame, fn *ssa.Function, a []Value) Value {
		p.Assume(termOf(a[0]))
		return nil
	}, zz+"Assume")
	reg(func(p *Path, fr *frame, fn *ssa.Function, a []Value) Value {
		p.Check(termOf(a[0]), strArg(a[1]), fr)
		return nil
	}, zz+"Assert")
	reg(func(p *Path, fr *frame, fn *ssa.Function, a []Value) Value {
		p.Check(sym.False, strArg(a[0]), fr)
		return nil
	}, zz+"Fail")
	reg(func(p *Path, fr *frame, fn *ssa.Function, a []Value) Value {
		p.reach[strArg(a[0])] = true
		return nil
	}, zz+"Reach")
	reg(func(p *Path, fr *frame, fn *ssa.Function, a []Value) Value {
		p.bounds[strArg(a[0])] = intArg(a[1])
		return nil
	}, zz+"Bound")
	reg(func(p *Path, fr *frame, fn *ssa.Function, a []Value) Value {
		r := sym.True
		for _, t := range variadicBools(a[0]) {
			r = sym.And(r, t)
		}
		return r
	}, zz+"And")
	reg(func(p *Path, fr *frame, fn *ssa.Function, a []Value) Value {
		r := sym.False
		for _, t := range variadicBools(a[0]) {
			r = sym.Or(r, t)
		}
		return r
	}, zz+"Or")
	reg(func(p *Path, fr *frame, fn *ssa.Function, a []Value) Value { return sym.Not(termOf(a[0])) }, zz+"Not")
	reg(func(p *Path, fr *frame, fn *ssa.Function, a []Value) Value {
		return sym.Implies(termOf(a[0]), termOf(a[1]))
	}, zz+"Implies")
	reg(func(p *Path, fr *frame, fn *ssa.Function, a []Value) Value {
		return sym.Ite(termOf(a[0]), termOf(a[1]), termOf(a[2]))
	}, zz+"IteInt", zz+"IteInt64")
	reg(func(p *Path, fr *frame, fn *ssa.Function, a []Value) Value { return strEq(a[0], a[1]) }, zz+"StrEq")
	reg(func(p *Path, fr *frame, fn *ssa.Function, a []Value) Value {
		// encoded documents (json/xml Marshal results, opaque request bodies) are one opaque element: equal iff the same document
		if hx, hy := docHandle(a[0]), docHandle(a[1]); hx != nil || hy != nil {
			if hx == hy {
				return sym.True
			}
			if hx == nil || hy == nil {
				panic(unmodelled{"BytesEq of an encoded document and modelled bytes"})
			}
			panic(unmodelled{"BytesEq of two different encoded documents"})
		}
		x, y := seqBytes(a[0]), seqBytes(a[1])
		if len(x) != len(y) {
			return sym.False
		}
		return matchAt(x, y, 0)
	}, zz+"BytesEq")
	reg(func(p *Path, fr *frame, fn *ssa.Function, a []Value) Value { return sym.True }, zz+"IsSymbolic")
	reg(func(p *Path, fr *frame, fn *ssa.Function, a []Value) Value {
		if os.Getenv("VERIF_TIER") == "thorough" {
			return mkInt(1)
		}
		return mkInt(0)
	}, zz+"Tier")
	reg(func(p *Path, fr *frame, fn *ssa.Function, a []Value) Value {
		var sb strings.Builder
		for i, v := range a[0].(Slice).A {
			if i > 0 {
				sb.WriteByte(' ')
			}
			iv := v.(Iface)
			sb.WriteString(show(iv.V))
		}
		p.trace = append(p.trace, sb.String())
		return nil
	}, zz+"Trace")
	reg(func(p *Path, fr *frame, fn *ssa.Function, a []Value) Value {
		t := termOf(a[0])
		lo, hi := intArg(a[1]), intArg(a[2])
		inr := sym.And(sym.SLe(mkInt(int64(lo)), t), sym.SLe(t, mkInt(int64(hi))))
		p.Assume(inr)
		return mkInt(p.DecideValue(t, int64(lo), int64(hi), fr))
	}, zz+"Concretize")
	// Recover(f) runs f and reports whether it panicked (the panic is then not a crash).
	reg(func(p *Path, fr *frame, fn *ssa.Function, a []Value) (res Value) {
		depth := p.depth
		defer func() {
			if r := recover(); r != nil {
				if _, ok := r.(goPanic); ok {
					p.depth = depth
					if n := len(p.panics); n > 0 {
						p.panics[n-1].Recovered = true
					}
					res = sym.True
					return
				}
				panic(r)
			}
		}()
		p.call(fr, a[0], nil)
		return sym.False
	}, zz+"Recover")
	// Abort() stops the running operation like a process kill: no deferred function runs; control returns to the
	// innermost CatchAbort.
	reg(func(p *Path, fr *frame, fn *ssa.Function, a []Value) Value {
		panic(abortSignal{})
	}, zz+"Abort")
	reg(func(p *Path, fr *frame, fn *ssa.Function, a []Value) Value {
		p.lockCb = nil
		switch c := a[0].(type) {
		case *Closure:
			if c != nil {
				p.lockCb = c
			}
		case *ssa.Function:
			if c != nil {
				p.lockCb = c
			}
		}
		return nil
	}, zz+"OnLock")
	reg(func(p *Path, fr *frame, fn *ssa.Function, a []Value) (res Value) {
		depth := p.depth
		defer func() {
			if r := recover(); r != nil {
				if _, ok := r.(abortSignal); ok {
					p.depth = depth
					p.locks = nil // the process died: its locks died with it
					res = sym.True
					return
				}
				panic(r)
			}
		}()
		p.call(fr, a[0], nil)
		return sym.False
	}, zz+"CatchAbort")
	// LastPanic returns a description of the most recent panic ("" if none).
	reg(func(p *Path, fr *frame, fn *ssa.Function, a []Value) Value {
		if n := len(p.panics); n > 0 {
			return p.panics[n-1].Msg + " @ " + p.panics[n-1].Site
		}
		return ""
	}, zz+"LastPanic")
	// UF(name, args…) – uninterpreted function with n result bytes, functionally consistent per path.
	reg(func(p *Path, fr *frame, fn *ssa.Function, a []Value) Value {
		return p.ufBytes(fr, strArg(a[0]), intArg(a[1]), a[2].(Slice).A)
	}, zz+"UF")
	reg(func(p *Path, fr *frame, fn *ssa.Function, a []Value) Value {
		m, _ := p.state["ufinj"].(map[string]bool)
		if m == nil {
			m = map[string]bool{}
			p.state["ufinj"] = m
		}
		m[strArg(a[0])] = true
		return nil
	}, zz+"AssumeCollisionFree")
	// FmtIs(s, format-description) lets oracles look at opaque formatted strings.
	reg(func(p *Path, fr *frame, fn *ssa.Function, a []Value) Value {
		if f, ok := a[0].(*FmtStr); ok {
			return f.String()
		}
		if s, ok := a[0].(string); ok {
			return s
		}
		return show(a[0])
	}, zz+"Describe")

	// ---- fmt
	reg(func(p *Path, fr *frame, fn *ssa.Function, a []Value) Value {
		s, _ := p.sprintf(fr, a[0], a[1].(Slice).A)
		return s
	}, "fmt.Sprintf")
	reg(func(p *Path, fr *frame, fn *ssa.Function, a []Value) Value {
		s, wrapped := p.sprintf(fr, a[0], a[1].(Slice).A)
		return p.makeError(fr, s, wrapped)
	}, "fmt.Errorf")
	reg(func(p *Path, fr *frame, fn *ssa.Function, a []Value) Value {
		var r Value = ""
		for i, v := range a[0].(Slice).A {
			piece := p.fmtArg(fr, 'v', v.(Iface))
			if i > 0 {
				// Sprint adds spaces between operands when neither is a string
				_, s1 := a[0].(Slice).A[i-1].(Iface).V.(string)
				_, s2 := v.(Iface).V.(string)
				if !s1 && !s2 {
					r = strConcat(r, " ")
				}
			}
			r = strConcat(r, piece)
		}
		return r
	}, "fmt.Sprint")
	reg(func(p *Path, fr *frame, fn *ssa.Function, a []Value) Value {
		var r Value = ""
		for i, v := range a[0].(Slice).A {
			if i > 0 {
				r = strConcat(r, " ")
			}
			r = strConcat(r, p.fmtArg(fr, 'v', v.(Iface)))
		}
		return strConcat(r, "\n")
	}, "fmt.Sprintln")
	printNop := func(p *Path, fr *frame, fn *ssa.Function, a []Value) Value {
		return Tuple{mkInt(0), Iface{}}
	}
	reg(printNop, "fmt.Println", "fmt.Printf", "fmt.Print", "fmt.Fprintln", "fmt.Fprint")
	reg(func(p *Path, fr *frame, fn *ssa.Function, a []Value) Value {
		// Fprintf(w, format, args…): format, then call w.Write
		s, _ := p.sprintf(fr, a[1], a[2].(Slice).A)
		w := a[0].(Iface)
		if w.T == nil {
			return Tuple{mkInt(0), Iface{}}
		}
		if strings.HasPrefix(w.T.String(), "*os.File") {
			return Tuple{mkInt(0), Iface{}}
		}
		m := p.eng.lookupMethodByName(w.T, "Write")
		b := strBytesOrFail(fr, s)
		vs := make([]Value, len(b))
		for i := range b {
			vs[i] = b[i]
		}
		return p.callFn(fr, m, []Value{w.V, Slice{A: vs}}, nil)
	}, "fmt.Fprintf")
	reg(nop, "log.Printf", "log.Println", "log.Print", "(*log.Logger).Printf", "(*log.Logger).Println")
}

// makeError builds the value fmt.Errorf / errors.New would return.
func (p *Path) makeError(fr *frame, msg Value, wrapped []Iface) Value {
	fmtPkg := p.eng.pkgByID["fmt"]
	switch len(wrapped) {
	case 0:
		t := fmtPkg.Type("wrapError") // only to locate package; use errors.errorString
		_ = t
		et := p.eng.pkgByID["errors"].Type("errorString").Type()
		var sv Value = Struct{msg}
		return Iface{T: types.NewPointer(et), V: &sv}
	case 1:
		wt := fmtPkg.Type("wrapError").Type()
		var sv Value = Struct{msg, wrapped[0]}
		return Iface{T: types.NewPointer(wt), V: &sv}
	default:
		wt := fmtPkg.Type("wrapErrors").Type()
		errs := make([]Value, len(wrapped))
		for i := range wrapped {
			errs[i] = wrapped[i]
		}
		var sv Value = Struct{msg, Slice{A: errs}}
		return Iface{T: types.NewPointer(wt), V: &sv}
	}
}

// sprintf implements the subset of fmt verbs the code under check uses.
func (p *Path) sprintf(fr *frame, formatV Value, args []Value) (Value, []Iface) {
	format, ok := formatV.(string)
	if !ok {
		panic(unmodelled{"symbolic format string at " + fr.where()})
	}
	var out Value = ""
	var wrapped []Iface
	argi := 0
	i := 0
	for i < len(format) {
		j := strings.IndexByte(format[i:], '%')
		if j < 0 {
			out = strConcat(out, format[i:])
			break
		}
		out = strConcat(out, format[i:i+j])
		i += j + 1
		if i >= len(format) {
			out = strConcat(out, "%!(NOVERB)")
			break
		}
		// flags / width / precision
		spec := "%"
		for i < len(format) && strings.IndexByte("+-# 0123456789.", format[i]) >= 0 {
			spec += string(format[i])
			i++
		}
		verb := format[i]
		i++
		if verb == '%' {
			out = strConcat(out, "%")
			continue
		}
		if argi >= len(args) {
			out = strConcat(out, "%!"+string(verb)+"(MISSING)")
			continue
		}
		arg := args[argi].(Iface)
		argi++
		if verb == 'w' {
			if arg.T != nil {
				wrapped = append(wrapped, arg)
			}
			verb = 'v'
		}
		if spec != "%" {
			// width/flags: only concrete scalars
			if g, ok := goNative(arg); ok {
				out = strConcat(out, fmt.Sprintf(spec+string(verb), g))
				continue
			}
			if spec == "%+" || spec == "%#" {
				out = strConcat(out, p.fmtArg(fr, verb, arg))
				continue
			}
			out = strConcat(out, &FmtStr{Parts: []Value{FmtArg{Verb: verb, V: arg.V}}})
			continue
		}
		out = strConcat(out, p.fmtArg(fr, verb, arg))
	}
	return out, wrapped
}

// goNative converts concrete scalar values to Go values for real formatting.
func goNative(a Iface) (interface{}, bool) {
	if a.T == nil {
		return nil, true
	}
	switch v := a.V.(type) {
	case string:
		if b, ok := a.T.Underlying().(*types.Basic); ok && b.Info()&types.IsString != 0 {
			return v, true
		}
	case float64:
		return v, true
	case *sym.Term:
		if !v.IsConst() {
			return nil, false
		}
		b, ok := a.T.Underlying().(*types.Basic)
		if !ok {
			return nil, false
		}
		switch {
		case b.Info()&types.IsBoolean != 0:
			return v.C == 1, true
		case b.Kind() == types.Uint8:
			return uint8(v.C), true
		case b.Kind() == types.Int32:
			return int32(v.Signed()), true
		case b.Info()&types.IsUnsigned != 0:
			return v.C, true
		default:
			return v.Signed(), true
		}
	}
	return nil, false
}

func (p *Path) fmtArg(fr *frame, verb byte, a Iface) Value {
	if a.T == nil {
		return "<nil>"
	}
	// error / Stringer take precedence for %v %s %q
	if verb == 'v' || verb == 's' || verb == 'q' {
		if a.T == runtimeErrorType {
			return a.V
		}
		if _, isBasic := a.T.(*types.Basic); !isBasic {
			if m := p.eng.lookupMethodByName(a.T, "Error"); m != nil && m.Signature.Params().Len() == 0 {
				if ptr, isPtr := a.V.(*Value); isPtr && ptr == nil {
					return "<nil>"
				}
				return p.callFn(fr, m, []Value{a.V}, nil)
			}
			if m := p.eng.lookupMethodByName(a.T, "String"); m != nil && m.Signature.Params().Len() == 0 && m.Signature.Results().Len() == 1 {
				if ptr, isPtr := a.V.(*Value); isPtr && ptr == nil {
					return "<nil>"
				}
				return p.callFn(fr, m, []Value{a.V}, nil)
			}
		}
	}
	switch v := a.V.(type) {
	case string:
		switch verb {
		case 'q':
			return strconv.Quote(v)
		case 'x':
			return fmt.Sprintf("%x", v)
		}
		return v
	case *Str:
		if verb == 'v' || verb == 's' {
			return v
		}
		if verb == 'x' {
			return hexOfBytes(v.B)
		}
		return &FmtStr{Parts: []Value{FmtArg{Verb: verb, V: v}}}
	case *FmtStr:
		if verb == 'v' || verb == 's' {
			return v
		}
		return &FmtStr{Parts: []Value{FmtArg{Verb: verb, V: v}}}
	case *sym.Term:
		if g, ok := goNative(a); ok {
			return fmt.Sprintf("%"+string(verb), g)
		}
		return &FmtStr{Parts: []Value{FmtArg{Verb: verb, V: v}}}
	case float64:
		return fmt.Sprintf("%"+string(verb), v)
	case Slice:
		if verb == 'x' || verb == 's' {
			if len(v.A) == 0 {
				return ""
			}
			if t, ok := v.A[0].(*sym.Term); ok && t.W == 8 {
				if verb == 'x' {
					return hexOfBytes(seqBytes(v))
				}
				return mkStr(seqBytes(v))
			}
		}
		if verb == 'v' || verb == 's' {
			// [a b c]
			var r Value = "["
			et := a.T.Underlying().(*types.Slice).Elem()
			for i, e := range v.A {
				if i > 0 {
					r = strConcat(r, " ")
				}
				ev, isI := e.(Iface)
				if !isI {
					ev = Iface{T: et, V: e}
				}
				r = strConcat(r, p.fmtArg(fr, verb, ev))
			}
			return strConcat(r, "]")
		}
	case Array:
		if verb == 'x' && len(v) > 0 {
			if t, ok := v[0].(*sym.Term); ok && t.W == 8 {
				b := make([]*sym.Term, len(v))
				for i := range v {
					b[i] = v[i].(*sym.Term)
				}
				return hexOfBytes(b)
			}
		}
	case *Value:
		if v == nil {
			return "<nil>"
		}
		if verb == 'v' || verb == 'p' {
			return fmt.Sprintf("%p", v)
		}
	case Iface:
		return p.fmtArg(fr, verb, v)
	}
	return &FmtStr{Parts: []Value{FmtArg{Verb: verb, V: a.V}}}
}

const hexdigits = "0123456789abcdef"

func hexDigit(n *sym.Term) *sym.Term {
	// n is a 4-bit value zero-extended to 8 bits
	return sym.Ite(sym.ULt(n, sym.Byte(10)), sym.Add(n, sym.Byte('0')), sym.Add(n, sym.Byte('a'-10)))
}

func hexOfBytes(b []*sym.Term) Value {
	out := make([]*sym.Term, 0, 2*len(b))
	for _, c := range b {
		if c.IsConst() {
			out = append(out, sym.Byte(hexdigits[c.C>>4]), sym.Byte(hexdigits[c.C&15]))
			continue
		}
		hi := sym.LShr(c, sym.Byte(4))
		lo := sym.BAnd(c, sym.Byte(15))
		out = append(out, hexDigit(hi), hexDigit(lo))
	}
	return mkStr(out)
}

// ufBytes returns n bytes of an uninterpreted function applied to args (Ackermann-style consistency within the path).
type ufApp struct {
	name string
	args []Value
	out  []*sym.Term
}

func (p *Path) ufBytes(fr *frame, name string, n int, args []Value) Value {
	apps, _ := p.state["uf"].([]*ufApp)
	// flatten args
	var flat []Value
	for _, a := range args {
		if iv, ok := a.(Iface); ok {
			a = iv.V
		}
		flat = append(flat, a)
	}
	// concrete arguments: the real function (or, for unknown names, one fixed injective-looking interpretation)
	if cb, ok := concreteUF(name, n, flat); ok {
		vs := make([]Value, n)
		outc := make([]*sym.Term, n)
		for i := range cb {
			outc[i] = sym.Byte(cb[i])
			vs[i] = outc[i]
		}
		// remembered, so that later symbolic applications stay consistent with it
		p.state["uf"] = append(apps, &ufApp{name: name, args: flat, out: outc})
		return Slice{A: vs}
	}
	nm := p.freshName("uf$" + name)
	out := make([]*sym.Term, n)
	for i := range out {
		out[i] = sym.Var(fmt.Sprintf("%s[%d]", nm, i), 8)
	}
	for _, prev := range apps {
		if prev.name != name || len(prev.args) != len(flat) || len(prev.out) != n {
			continue
		}
		same := sym.True
		for i := range flat {
			same = sym.And(same, p.ufArgEq(fr, prev.args[i], flat[i]))
		}
		if same.IsFalse() {
			if p.ufInjective(name) {
				// collision freedom: different inputs (e.g. of different length) give different outputs
				eq := sym.True
				for i := range out {
					eq = sym.And(eq, sym.Eq(out[i], prev.out[i]))
				}
				p.addPC(sym.Not(eq))
			}
			continue
		}
		if same.IsTrue() {
			vs := make([]Value, n)
			for i := range prev.out {
				vs[i] = prev.out[i]
			}
			return Slice{A: vs}
		}
		eq := sym.True
		for i := range out {
			eq = sym.And(eq, sym.Eq(out[i], prev.out[i]))
		}
		p.addPC(sym.Implies(same, eq))
		if p.ufInjective(name) {
			p.addPC(sym.Implies(eq, same))
		}
	}
	apps = append(apps, &ufApp{name: name, args: flat, out: out})
	p.state["uf"] = apps
	vs := make([]Value, n)
	for i := range out {
		vs[i] = out[i]
	}
	return Slice{A: vs}
}

func concreteBytes(v Value) ([]byte, bool) {
	switch x := v.(type) {
	case Slice:
		b := make([]byte, len(x.A))
		for i, c := range x.A {
			t, ok := c.(*sym.Term)
			if !ok || !t.IsConst() {
				return nil, false
			}
			b[i] = byte(t.C)
		}
		return b, true
	case string:
		return []byte(x), true
	}
	return nil, false
}

func concreteUF(name string, n int, args []Value) ([]byte, bool) {
	var bs [][]byte
	for _, a := range args {
		b, ok := concreteBytes(a)
		if !ok {
			return nil, false
		}
		bs = append(bs, b)
	}
	var out []byte
	switch {
	case name == "md5" && len(bs) == 1:
		s := md5.Sum(bs[0])
		out = s[:]
	case name == "sha1" && len(bs) == 1:
		s := sha1.Sum(bs[0])
		out = s[:]
	case name == "sha256" && len(bs) == 1:
		s := sha256.Sum256(bs[0])
		out = s[:]
	case name == "hmac-sha256" && len(bs) == 2:
		h := hmac.New(sha256.New, bs[0])
		h.Write(bs[1])
		out = h.Sum(nil)
	case name == "crc32" && len(bs) == 1:
		out = binary.BigEndian.AppendUint32(nil, crc32.ChecksumIEEE(bs[0]))
	case name == "crc32c" && len(bs) == 1:
		out = binary.BigEndian.AppendUint32(nil, crc32.Checksum(bs[0], crc32.MakeTable(crc32.Castagnoli)))
	default:
		h := sha256.New()
		h.Write([]byte(name))
		for _, b := range bs {
			h.Write([]byte{0xff, byte(len(b))})
			h.Write(b)
		}
		out = h.Sum(nil)
		for len(out) < n {
			out = append(out, out...)
		}
	}
	if len(out) < n {
		return nil, false
	}
	return out[:n], true
}

func (p *Path) ufInjective(name string) bool {
	m, _ := p.state["ufinj"].(map[string]bool)
	return m[name]
}

func (p *Path) ufArgEq(fr *frame, a, b Value) *sym.Term {
	switch x := a.(type) {
	case Slice:
		y, ok := b.(Slice)
		if !ok || len(x.A) != len(y.A) {
			return sym.False
		}
		r := sym.True
		for i := range x.A {
			r = sym.And(r, p.ufArgEq(fr, x.A[i], y.A[i]))
		}
		return r
	case string, *Str:
		switch b.(type) {
		case string, *Str:
			return strEq(a, b)
		}
		return sym.False
	case *FmtStr:
		if y, ok := b.(*FmtStr); ok && identicalValue(x.Parts[0], y.Parts[0]) && len(x.Parts) == len(y.Parts) {
			return fmtStrEq(x, y)
		}
		return sym.False
	}
	return p.equals(fr, a, b)
}

// docHandle returns the handle of an encoded document held in a byte slice (nil if v is ordinary bytes).
func docHandle(v Value) *Handle {
	if sl, ok := v.(Slice); ok && len(sl.A) == 1 {
		if h, ok := sl.A[0].(*Handle); ok {
			return h
		}
	}
	return nil
}
