package interp

import (
	"time"

	"verif/engine/sym"

	"golang.org/x/tools/go/ssa"
)

// Concrete time.Time values (wall, ext, loc) are formatted with the real time package.
// Symbolic instants are handled by the harness-side clock model, not here.

const (
	hasMonotonic   = 1 << 63
	nsecMask       = 1<<30 - 1
	nsecShift      = 30
	wallToInternal = (1884*365 + 1884/4 - 1884/100 + 1884/400) * 86400
	unixToInternal = (1969*365 + 1969/4 - 1969/100 + 1969/400) * 86400
)

func concreteTime(v Value) (time.Time, bool) {
	s, ok := v.(Struct)
	if !ok || len(s) != 3 {
		return time.Time{}, false
	}
	wall, ok1 := s[0].(interface{ IsConst() bool })
	_ = wall
	w, okw := constInt(s[0])
	e, oke := constInt(s[1])
	if !ok1 || !okw || !oke {
		return time.Time{}, false
	}
	uw := uint64(w)
	nsec := int64(uw & nsecMask)
	var sec int64
	if uw&hasMonotonic != 0 {
		sec = int64(uw<<1>>(nsecShift+1)) + wallToInternal
	} else {
		sec = e
	}
	return time.Unix(sec-unixToInternal, nsec).UTC(), true
}

func timeValue(t time.Time) Value {
	sec := t.Unix() + unixToInternal
	return Struct{mkInt(int64(t.Nanosecond())), mkInt(sec), (*Value)(nil)}
}

func init() {
	reg(func(p *Path, fr *frame, fn *ssa.Function, a []Value) Value {
		t, ok := concreteTime(a[0])
		layout, ok2 := a[1].(string)
		if !ok || !ok2 {
			return &FmtStr{Parts: []Value{FmtArg{Verb: 'T', V: a[0].(Struct)[1]}, a[1]}}
		}
		return t.Format(layout)
	}, "(time.Time).Format")
	reg(func(p *Path, fr *frame, fn *ssa.Function, a []Value) Value { return mkInt(1) }, "time.runtimeNano", "time.runtimeNow")
	reg(nop, "time.Sleep")
	// time.now(): the clock model – arbitrary non-decreasing instants (seconds symbolic, whole seconds)
	reg(func(p *Path, fr *frame, fn *ssa.Function, a []Value) Value {
		if p.ClockHook != nil {
			return p.ClockHook(fr)
		}
		// default: a fixed instant (harnesses that reason about time install the clock model)
		return Tuple{mkInt(1714979289), sym.Const(32, 0), mkInt(1)}
	}, "time.now")
}
