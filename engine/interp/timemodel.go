package interp

import (
	"time"

	"verif/engine/sym"

	"golang.org/x/tools/go/ssa"
)

// Concrete time.Time values (wall, ext, loc) are formatted with the real time package.
// Symbolic instants are handled by the harness-side clock model, not here.

const (
	hasMonotonic   = 1 << 63
	nsecMask       = 1<<30 - 1
	nsecShift      = 30
	wallToInternal = (1884*365 + 1884/4 - 1884/100 + 1884/400) * 86400
	unixToInternal = (1969*365 + 1969/4 - 1969/100 + 1969/400) * 86400
)

func concreteTime(v Value) (time.Time, bool) {
	s, ok := v.(Struct)
	if !ok || len(s) != 3 {
		return time.Time{}, false
	}
	wall, ok1 := s[0].(interface{ IsConst() bool })
	_ = wall
	w, okw := constInt(s[0])
	e, oke := constInt(s[1])
	if !ok1 || !okw || !oke {
		return time.Time{}, false
	}
	uw := uint64(w)
	nsec := int64(uw & nsecMask)
	var sec int64
	if uw&hasMonotonic != 0 {
		sec = int64(uw<<1>>(nsecShift+1)) + wallToInternal
	} else {
		sec = e
	}
	return time.Unix(sec-unixToInternal, nsec).UTC(), true
}

func timeValue(t time.Time) Value {
	sec := t.Unix() + unixToInternal
	return Struct{mkInt(int64(t.Nanosecond())), mkInt(sec), (*Value)(nil)}
}

func init() {
	reg(func(p *Path, fr *frame, fn *ssa.Function, a []Value) Value {
		t, ok := concreteTime(a[0])
		layout, ok2 := a[1].(string)
		if !ok || !ok2 {
			return &FmtStr{Parts: []Value{FmtArg{Verb: 'T', V: a[0].(Struct)[1]}, a[1]}}
		}
		return t.Format(layout)
	}, "(time.Time).Format")
	// AddDate on a symbolic instant or with symbolic amounts: whole days of 86400 s, months of 30 and years of 365 days
	// (calendar effects are outside every claim that uses it); concrete calls use the real calendar.
	reg(func(p *Path, fr *frame, fn *ssa.Function, a []Value) Value {
		t, okT := concreteTime(a[0])
		y, okY := constInt(a[1])
		m, okM := constInt(a[2])
		d, okD := constInt(a[3])
		if okT && okY && okM && okD {
			return timeValue(t.AddDate(int(y), int(m), int(d)))
		}
		s := a[0].(Struct)
		if okT {
			s = timeValue(t.Round(0)).(Struct) // AddDate works on the wall clock: the monotonic reading is dropped
		}
		wall := termOf(s[0])
		if !wall.IsConst() || wall.C&hasMonotonic != 0 {
			panic(unmodelled{"AddDate on a time with monotonic reading"})
		}
		days := sym.Add(sym.Add(sym.Mul(termOf(a[1]), mkInt(365)), sym.Mul(termOf(a[2]), mkInt(30))), termOf(a[3]))
		p.note("time.AddDate on symbolic values modelled with 365-day years and 30-day months")
		return Struct{s[0], sym.Add(termOf(s[1]), sym.Mul(days, mkInt(86400))), s[2]}
	}, "(time.Time).AddDate")
	calendar := func(p *Path, fr *frame, fn *ssa.Function, a []Value) Value {
		if t, ok := concreteTime(a[0]); ok {
			switch fn.Name() {
			case "Year":
				return mkInt(int64(t.Year()))
			case "Month":
				return mkInt(int64(t.Month()))
			case "Day":
				return mkInt(int64(t.Day()))
			case "YearDay":
				return mkInt(int64(t.YearDay()))
			case "Weekday":
				return mkInt(int64(t.Weekday()))
			case "Date":
				y, m, d := t.Date()
				return Tuple{mkInt(int64(y)), mkInt(int64(m)), mkInt(int64(d))}
			case "Clock":
				h, m, s := t.Clock()
				return Tuple{mkInt(int64(h)), mkInt(int64(m)), mkInt(int64(s))}
			}
		}
		panic(unmodelled{"calendar field (" + fn.Name() + ") of a symbolic instant at " + fr.where()})
	}
	reg(calendar, "(time.Time).Year", "(time.Time).Month", "(time.Time).Day", "(time.Time).YearDay", "(time.Time).Weekday", "(time.Time).Date", "(time.Time).Clock")
	reg(func(p *Path, fr *frame, fn *ssa.Function, a []Value) Value { return mkInt(1) }, "time.runtimeNano", "time.runtimeNow")
	reg(nop, "time.Sleep")
	// time.now(): the clock model – arbitrary non-decreasing instants (seconds symbolic, whole seconds)
	reg(func(p *Path, fr *frame, fn *ssa.Function, a []Value) Value {
		if p.ClockHook != nil {
			return p.ClockHook(fr)
		}
		if p.bounds["symbolic_clock"] == 1 {
			// arbitrary non-decreasing instants (whole seconds) within a sane range
			sec := p.newScalar("now", "int64", 64)
			p.Assume(sym.And(sym.SLt(mkInt(31536000), sec), sym.SLt(sec, mkInt(7258118400))))
			if prev, ok := p.state["clock_prev"].(*sym.Term); ok {
				p.Assume(sym.SLe(prev, sec))
			}
			p.state["clock_prev"] = sec
			return Tuple{sec, sym.Const(32, 0), mkInt(1)}
		}
		// default: a fixed instant (harnesses that reason about time install the clock model)
		return Tuple{mkInt(1714979289), sym.Const(32, 0), mkInt(1)}
	}, "time.now")
}
