package interp

import (
	"fmt"
	"go/types"
	"strings"

	"golang.org/x/tools/go/ssa"

	"verif/engine/sym"
)

// Value is one of:
//
//	*sym.Term   bool and all integer kinds (constant or symbolic)
//	float64     floats (concrete only)
//	string      a fully concrete string
//	*Str        a string with at least one non-constant byte (concrete length)
//	*FmtStr     an opaque formatted string (length unknown)
//	*Value      pointer (nil pointer = (*Value)(nil))
//	Struct, Array, Slice, Tuple
//	*Map, Iface, *Closure, *ssa.Function, *ssa.Builtin, *Chan, *Handle
type Value interface{}

type Struct []Value
type Array []Value
type Tuple []Value

// Slice keeps Go's slice semantics by being one: aliasing, len and cap come for free.
type Slice struct {
	A []Value // nil means the nil slice
}

// Str is a concrete-length string whose bytes are 8-bit terms.
type Str struct {
	B []*sym.Term
}

// FmtStr is the result of formatting something whose rendering is not materialised
// (for instance the decimal form of a symbolic integer).
type FmtStr struct {
	Parts []Value // string | *Str | FmtArg
}

type FmtArg struct {
	Verb byte
	V    Value
}

type Iface struct {
	T types.Type
	V Value
}

type Closure struct {
	Fn  *ssa.Function
	Env []Value
}

// Handle is an engine-side object (hash state, regexp, …).
type Handle struct {
	Kind string
	P    interface{}
}

type Chan struct {
	Q      []Value
	Cap    int
	Closed bool
}

type mapEntry struct {
	k, v    Value
	deleted bool
}

type Map struct {
	entries []*mapEntry
	index   map[string]*mapEntry // concrete keys only
	n       int
}

func (m *Map) Len() int { return m.n }

// ------------------------------------------------------------------ scalars

func widthOf(t types.Type) uint8 {
	switch b := t.Underlying().(type) {
	case *types.Basic:
		switch b.Kind() {
		case types.Bool, types.UntypedBool:
			return 0
		case types.Int8, types.Uint8:
			return 8
		case types.Int16, types.Uint16:
			return 16
		case types.Int32, types.Uint32, types.UntypedRune:
			return 32
		case types.Int, types.Uint, types.Int64, types.Uint64, types.Uintptr, types.UntypedInt:
			return 64
		}
	}
	panic(fmt.Sprintf("widthOf(%v)", t))
}

func isUnsigned(t types.Type) bool {
	if b, ok := t.Underlying().(*types.Basic); ok {
		return b.Info()&types.IsUnsigned != 0
	}
	return false
}

func isIntegerT(t types.Type) bool {
	if b, ok := t.Underlying().(*types.Basic); ok {
		return b.Info()&types.IsInteger != 0
	}
	return false
}

func isBoolT(t types.Type) bool {
	if b, ok := t.Underlying().(*types.Basic); ok {
		return b.Info()&types.IsBoolean != 0
	}
	return false
}

func isFloatT(t types.Type) bool {
	if b, ok := t.Underlying().(*types.Basic); ok {
		return b.Info()&types.IsFloat != 0
	}
	return false
}

func isStringT(t types.Type) bool {
	if b, ok := t.Underlying().(*types.Basic); ok {
		return b.Info()&types.IsString != 0
	}
	return false
}

func mkInt(v int64) *sym.Term  { return sym.Const(64, uint64(v)) }
func mkBool(b bool) *sym.Term  { return sym.Bool(b) }
func isConcrete(v Value) bool  { t, ok := v.(*sym.Term); return ok && t.IsConst() }
func termOf(v Value) *sym.Term { return v.(*sym.Term) }
func constInt(v Value) (int64, bool) {
	t, ok := v.(*sym.Term)
	if !ok || !t.IsConst() {
		return 0, false
	}
	return t.Signed(), true
}

// ------------------------------------------------------------------ strings

func strLen(v Value) int {
	switch s := v.(type) {
	case string:
		return len(s)
	case *Str:
		return len(s.B)
	}
	panic(fmt.Sprintf("strLen(%T)", v))
}

func strBytes(v Value) []*sym.Term {
	switch s := v.(type) {
	case string:
		b := make([]*sym.Term, len(s))
		for i := 0; i < len(s); i++ {
			b[i] = sym.Byte(s[i])
		}
		return b
	case *Str:
		return s.B
	}
	panic(fmt.Sprintf("strBytes(%T)", v))
}

func strAt(v Value, i int) *sym.Term {
	switch s := v.(type) {
	case string:
		return sym.Byte(s[i])
	case *Str:
		return s.B[i]
	}
	panic(fmt.Sprintf("strAt(%T)", v))
}

// mkStr normalises: all-constant bytes become a Go string.
func mkStr(b []*sym.Term) Value {
	for _, t := range b {
		if !t.IsConst() {
			return &Str{B: b}
		}
	}
	bs := make([]byte, len(b))
	for i, t := range b {
		bs[i] = byte(t.C)
	}
	return string(bs)
}

func strSlice(v Value, lo, hi int) Value {
	switch s := v.(type) {
	case string:
		return s[lo:hi]
	case *Str:
		return mkStr(s.B[lo:hi])
	}
	panic(fmt.Sprintf("strSlice(%T)", v))
}

func strConcat(a, b Value) Value {
	if x, ok := a.(string); ok {
		if y, ok := b.(string); ok {
			return x + y
		}
	}
	fa, okA := a.(*FmtStr)
	fb, okB := b.(*FmtStr)
	if okA || okB {
		var parts []Value
		if okA {
			parts = append(parts, fa.Parts...)
		} else {
			parts = append(parts, a)
		}
		if okB {
			parts = append(parts, fb.Parts...)
		} else {
			parts = append(parts, b)
		}
		return &FmtStr{Parts: parts}
	}
	x, y := strBytes(a), strBytes(b)
	r := make([]*sym.Term, 0, len(x)+len(y))
	r = append(r, x...)
	r = append(r, y...)
	return mkStr(r)
}

func strEq(a, b Value) *sym.Term {
	if x, ok := a.(string); ok {
		if y, ok := b.(string); ok {
			return sym.Bool(x == y)
		}
	}
	if fa, ok := a.(*FmtStr); ok {
		return fmtStrEq(fa, b)
	}
	if fb, ok := b.(*FmtStr); ok {
		return fmtStrEq(fb, a)
	}
	if strLen(a) != strLen(b) {
		return sym.False
	}
	x, y := strBytes(a), strBytes(b)
	r := sym.True
	for i := range x {
		r = sym.And(r, sym.Eq(x[i], y[i]))
		if r.IsFalse() {
			return r
		}
	}
	return r
}

// fmtStrEq: two opaque strings are equal when built from identical parts; anything else is not decided.
func fmtStrEq(a *FmtStr, b Value) *sym.Term {
	if fb, ok := b.(*FmtStr); ok {
		if len(a.Parts) == len(fb.Parts) {
			same := true
			for i := range a.Parts {
				if !identicalValue(a.Parts[i], fb.Parts[i]) {
					same = false
				}
			}
			if same {
				return sym.True
			}
		}
	}
	panic(unmodelled{"comparison of an opaque formatted string: " + a.String()})
}

func (f *FmtStr) String() string {
	var sb strings.Builder
	for _, p := range f.Parts {
		switch p := p.(type) {
		case string:
			sb.WriteString(p)
		case FmtArg:
			fmt.Fprintf(&sb, "{%%%c %s}", p.Verb, show(p.V))
		default:
			sb.WriteString("{" + show(p) + "}")
		}
	}
	return sb.String()
}

func identicalValue(a, b Value) bool {
	switch x := a.(type) {
	case string:
		y, ok := b.(string)
		return ok && x == y
	case *sym.Term:
		y, ok := b.(*sym.Term)
		if !ok {
			return false
		}
		if x == y {
			return true
		}
		return x.IsConst() && y.IsConst() && x.W == y.W && x.C == y.C
	case FmtArg:
		y, ok := b.(FmtArg)
		return ok && x.Verb == y.Verb && identicalValue(x.V, y.V)
	case *Str:
		y, ok := b.(*Str)
		if !ok || len(x.B) != len(y.B) {
			return false
		}
		for i := range x.B {
			if !identicalValue(x.B[i], y.B[i]) {
				return false
			}
		}
		return true
	}
	return false
}

// strLess builds the lexicographic a<b formula.
func strLess(a, b Value) *sym.Term {
	if x, ok := a.(string); ok {
		if y, ok := b.(string); ok {
			return sym.Bool(x < y)
		}
	}
	x, y := strBytes(a), strBytes(b)
	n := len(x)
	if len(y) < n {
		n = len(y)
	}
	// from the back: less_i = x[i]<y[i] || (x[i]==y[i] && less_{i+1}); base: len(x)<len(y)
	r := sym.Bool(len(x) < len(y))
	for i := n - 1; i >= 0; i-- {
		r = sym.Or(sym.ULt(x[i], y[i]), sym.And(sym.Eq(x[i], y[i]), r))
	}
	return r
}

func concreteString(v Value) (string, bool) {
	s, ok := v.(string)
	return s, ok
}

// ------------------------------------------------------------------ zero values and copying

func zero(t types.Type) Value {
	switch t := t.(type) {
	case *types.Basic:
		if t.Kind() == types.UntypedNil {
			return nil
		}
		switch {
		case t.Info()&types.IsBoolean != 0:
			return sym.False
		case t.Info()&types.IsInteger != 0:
			return sym.Const(widthOf(t), 0)
		case t.Info()&types.IsFloat != 0:
			return float64(0)
		case t.Info()&types.IsString != 0:
			return ""
		case t.Kind() == types.UnsafePointer:
			return (*Value)(nil)
		case t.Info()&types.IsComplex != 0:
			return complex128(0)
		}
		panic(fmt.Sprintf("zero(%v)", t))
	case *types.Pointer:
		return (*Value)(nil)
	case *types.Array:
		a := make(Array, t.Len())
		for i := range a {
			a[i] = zero(t.Elem())
		}
		return a
	case *types.Named:
		return zero(t.Underlying())
	case *types.Alias:
		return zero(types.Unalias(t))
	case *types.Interface:
		return Iface{}
	case *types.Slice:
		return Slice{}
	case *types.Struct:
		s := make(Struct, t.NumFields())
		for i := range s {
			s[i] = zero(t.Field(i).Type())
		}
		return s
	case *types.Tuple:
		if t.Len() == 1 {
			return zero(t.At(0).Type())
		}
		s := make(Tuple, t.Len())
		for i := range s {
			s[i] = zero(t.At(i).Type())
		}
		return s
	case *types.Chan:
		return (*Chan)(nil)
	case *types.Map:
		return (*Map)(nil)
	case *types.Signature:
		return (*Closure)(nil)
	case *types.TypeParam:
		panic("zero of type parameter (program not instantiated)")
	}
	panic(fmt.Sprintf("zero: unexpected %T", t))
}

// copyVal copies aggregates (value semantics); everything else is immutable or a reference.
func copyVal(v Value) Value {
	switch v := v.(type) {
	case Struct:
		n := make(Struct, len(v))
		for i := range v {
			n[i] = copyVal(v[i])
		}
		return n
	case Array:
		n := make(Array, len(v))
		for i := range v {
			n[i] = copyVal(v[i])
		}
		return n
	case Tuple:
		n := make(Tuple, len(v))
		for i := range v {
			n[i] = copyVal(v[i])
		}
		return n
	}
	return v
}

// storeInto writes v into *addr field by field so that interior pointers stay valid.
func storeInto(addr *Value, v Value) {
	switch nv := v.(type) {
	case Struct:
		if old, ok := (*addr).(Struct); ok && len(old) == len(nv) {
			for i := range nv {
				storeInto(&old[i], nv[i])
			}
			return
		}
		*addr = copyVal(v)
	case Array:
		if old, ok := (*addr).(Array); ok && len(old) == len(nv) {
			for i := range nv {
				storeInto(&old[i], nv[i])
			}
			return
		}
		*addr = copyVal(v)
	default:
		*addr = v
	}
}

// ------------------------------------------------------------------ maps

// keyString returns a canonical encoding of a concrete, hashable key.
func keyString(v Value) (string, bool) {
	switch k := v.(type) {
	case *sym.Term:
		if !k.IsConst() {
			return "", false
		}
		return fmt.Sprintf("i%d:%d", k.W, k.C), true
	case string:
		return "s" + k, true
	case *Str, *FmtStr:
		return "", false
	case float64:
		return fmt.Sprintf("f%v", k), true
	case *Value:
		return fmt.Sprintf("p%p", k), true
	case Iface:
		if k.T == nil {
			return "nil", true
		}
		s, ok := keyString(k.V)
		return "I" + k.T.String() + "|" + s, ok
	case Struct:
		var sb strings.Builder
		sb.WriteString("{")
		for _, f := range k {
			s, ok := keyString(f)
			if !ok {
				return "", false
			}
			fmt.Fprintf(&sb, "%d:%s,", len(s), s)
		}
		sb.WriteString("}")
		return sb.String(), true
	case Array:
		var sb strings.Builder
		sb.WriteString("[")
		for _, f := range k {
			s, ok := keyString(f)
			if !ok {
				return "", false
			}
			fmt.Fprintf(&sb, "%d:%s,", len(s), s)
		}
		sb.WriteString("]")
		return sb.String(), true
	case *Map, *Chan, *Handle:
		return fmt.Sprintf("r%p", k), true
	case nil:
		return "nil", true
	}
	panic(fmt.Sprintf("keyString(%T)", v))
}

func newMap() *Map { return &Map{index: map[string]*mapEntry{}} }

// ------------------------------------------------------------------ display

func show(v Value) string {
	switch v := v.(type) {
	case nil:
		return "nil"
	case *sym.Term:
		return v.String()
	case string:
		return fmt.Sprintf("%q", v)
	case *Str:
		var sb strings.Builder
		sb.WriteString("str[")
		for i, b := range v.B {
			if i > 0 {
				sb.WriteByte(' ')
			}
			if b.IsConst() {
				fmt.Fprintf(&sb, "%q", rune(b.C))
			} else {
				sb.WriteString(b.String())
			}
		}
		sb.WriteString("]")
		return sb.String()
	case *FmtStr:
		return "fmt(" + v.String() + ")"
	case *Value:
		if v == nil {
			return "nil-ptr"
		}
		return fmt.Sprintf("&%p", v)
	case Struct:
		var sb strings.Builder
		sb.WriteString("{")
		for i, f := range v {
			if i > 0 {
				sb.WriteString(", ")
			}
			if i > 8 {
				sb.WriteString("…")
				break
			}
			sb.WriteString(show(f))
		}
		sb.WriteString("}")
		return sb.String()
	case Slice:
		if v.A == nil {
			return "nil-slice"
		}
		var sb strings.Builder
		sb.WriteString("[")
		for i, f := range v.A {
			if i > 0 {
				sb.WriteString(", ")
			}
			if i > 16 {
				sb.WriteString("…")
				break
			}
			sb.WriteString(show(f))
		}
		sb.WriteString("]")
		return sb.String()
	case Iface:
		if v.T == nil {
			return "nil-iface"
		}
		return fmt.Sprintf("iface(%s: %s)", v.T, show(v.V))
	case *ssa.Function:
		return v.String()
	case *Closure:
		if v == nil {
			return "nil-func"
		}
		return "closure " + v.Fn.String()
	}
	return fmt.Sprintf("%T", v)
}
