#!/usr/bin/env python3
"""vcheck <PROPERTY> quick|thorough — run the symbolic checks of one property.

For each harness entry of the property: load /repo's current tree (+ harness overlay) as go/ssa,
execute symbolically (bin/gose), collect violations, replay each new violation natively against
the real build (go test -overlay) where the harness supports it, match against known_findings.json,
write evidence/<ID>.json, and exit 0 (held / only known findings) or 1 (VIOLATION lines printed).
Inconclusive runs (un-modelled call, solver unknown, budget) exit 3 without a VIOLATION line.
"""
import json, os, subprocess, sys, time, hashlib, re, shutil, tempfile

VERIF = os.path.dirname(os.path.abspath(__file__))
REPO = os.environ.get("VERIF_REPO", "/repo")
# evidence goes to /verif/evidence unless a run against a scratch tree (seeded changes) redirects it
EVDIR = os.environ.get("VERIF_EVIDENCE_DIR") or os.path.join(os.path.dirname(os.path.abspath(__file__)), "evidence")
GOSE = os.path.join(VERIF, "bin", "gose")
MOD = "github.com/versity/versitygw/"
ENV = dict(os.environ, GOFLAGS="-mod=mod", GOPROXY="off", GOSUMDB="off", GOTOOLCHAIN="local")

sys.path.insert(0, VERIF)
from spec.checks import CHECKS  # property id -> config


def ensure_built():
    if os.path.exists(GOSE):
        newest = 0
        for root, _, files in os.walk(os.path.join(VERIF, "engine")):
            for f in files:
                newest = max(newest, os.path.getmtime(os.path.join(root, f)))
        if os.path.getmtime(GOSE) >= newest:
            return
    os.makedirs(os.path.join(VERIF, "bin"), exist_ok=True)
    subprocess.run(["go", "build", "-o", GOSE, "./cmd/gose"], cwd=os.path.join(VERIF, "engine"), env=ENV, check=True)


def run_gose(h, tier, outdir):
    out = os.path.join(outdir, h["name"] + ".json")
    cmd = [GOSE, "-repo", REPO, "-harness", os.path.join(VERIF, "harness", "tree"), "-pkgs", ",".join(h["pkgs"]),
           "-entry", MOD + h["entry"], "-out", out]
    if h.get("redirects"):
        cmd += ["-redirects", ",".join(os.path.join(VERIF, f) for f in h["redirects"].split(","))]
    budget = h.get("budget", {}).get(tier)
    if not budget and tier == "thorough":
        budget = "8m"  # default wall-clock budget per harness in the thorough tier; reaching it is reported as a note
    if budget:
        cmd += ["-budget", budget]
    for k in ("maxsteps", "maxdecisions", "qtimeout", "qtimeout2", "solver", "solver2"):
        if k in h:
            cmd += ["-" + k, str(h[k])]
    if h.get("panic_ok"):
        cmd += ["-panic-violation=false"]
    env = dict(ENV, VERIF_TIER=tier)
    t0 = time.time()
    p = subprocess.run(cmd, env=env, stdout=subprocess.PIPE, stderr=subprocess.PIPE, text=True)
    wall = time.time() - t0
    if p.returncode != 0 or not os.path.exists(out):
        return {"failed": True, "stderr": p.stderr[-4000:], "wall": wall}
    r = json.load(open(out))
    r["wall_total"] = wall
    r["stderr"] = p.stderr[-2000:]
    return r


def site_key(h, v):
    """Stable identity of a violation: harness, assertion label, function and source text of the violated site
    (never line numbers), plus harness-declared discriminating inputs."""
    parts = [h["name"], v["label"]]
    if v.get("kind") in ("panic", "alloc"):
        parts += [v.get("site_fn", ""), v.get("site_src", "")]
        if v.get("kind") == "panic":
            m = re.sub(r"\[-?\d+\]|\d+", "N", v.get("msg", "").split(" :: ")[0])
            parts.append(m)
    for k in h.get("key_inputs", []):
        if k in v.get("inputs", {}):
            parts.append("%s=%s" % (k, v["inputs"][k]))
    for k in h.get("key_trace", []):
        for t in v.get("trace") or []:
            if t.startswith(k):
                parts.append(t)
    return "|".join(parts)


def native_replay(pid, h, v, idx):
    """Replay a solver model natively: generated test runs the same harness entry with the model's inputs."""
    if not h.get("native", False):
        return None
    rdir = os.path.join(EVDIR, "replay", pid)
    os.makedirs(rdir, exist_ok=True)
    tag = "%s-%s-%d" % (h["name"], re.sub(r"[^A-Za-z0-9]+", "_", v["label"]), idx)
    assign = os.path.join(rdir, tag + ".assign.json")
    json.dump(v["inputs"], open(assign, "w"), indent=1)
    pkgdir = h["entry"].rsplit(".", 1)[0]
    fn = h["entry"].rsplit(".", 1)[1]
    pkgname = h.get("pkgname", pkgdir.split("/")[-1])
    test = os.path.join(rdir, tag + "_test.go")
    open(test, "w").write('''package %s

import (
	"testing"

	"github.com/versity/versitygw/internal/zzvf"
)

func TestZZVFReplay(t *testing.T) {
	fails, assumeViolated := zzvf.RunNative(%s)
	if assumeViolated {
		t.Logf("ZZVF-ASSUME-VIOLATED")
	}
	for _, f := range fails {
		t.Logf("ZZVF-FAILED %%s", f)
	}
	if len(fails) > 0 {
		t.Fail()
	}
}
''' % (pkgname, fn))
    replace = {os.path.join(REPO, pkgdir, "zz_vf_replay_test.go"): test}
    tree = os.path.join(VERIF, "harness", "tree")
    for root, _, files in os.walk(tree):
        for f in files:
            if f.endswith(".go"):
                src = os.path.join(root, f)
                replace[os.path.join(REPO, os.path.relpath(src, tree))] = src
    ov = os.path.join(rdir, tag + ".overlay.json")
    json.dump({"Replace": replace}, open(ov, "w"), indent=1)
    cmd = ["go", "test", "-vet=off", "-count=1", "-v", "-overlay", ov, "-run", "TestZZVFReplay", "./" + pkgdir]
    p = subprocess.run(cmd, cwd=REPO, env=dict(ENV, ZZVF_ASSIGN=assign), stdout=subprocess.PIPE, stderr=subprocess.STDOUT, text=True, timeout=600)
    out = p.stdout
    repro = ("ZZVF-FAILED " + v["label"]) in out or ("ZZVF-FAILED PANIC" in out and v.get("kind") == "panic")
    rep = os.path.join(rdir, tag + ".replay.json")
    json.dump({"property": pid, "harness": h["name"], "entry": h["entry"], "label": v["label"], "inputs": v["inputs"],
               "decisions": v.get("decisions"), "site": v.get("site"), "where": v.get("where"), "msg": v.get("msg"),
               "native_cmd": "ZZVF_ASSIGN=%s %s" % (assign, " ".join(cmd)), "native_reproduced": repro,
               "native_output_tail": out[-1500:]}, open(rep, "w"), indent=1)
    return repro, rep


def main():
    if len(sys.argv) < 3:
        print(__doc__)
        sys.exit(2)
    pid, tier = sys.argv[1], sys.argv[2]
    seed = int(os.environ.get("VERIF_SEED", "0") or 0)
    cfg = CHECKS[pid]
    ensure_built()
    t0 = time.time()
    known = json.load(open(os.path.join(VERIF, "known_findings.json")))
    known_keys = {k["key"]: k for k in known if k["property"] == pid and k.get("status") == "known"}
    outdir = tempfile.mkdtemp(prefix="vcheck_%s_" % pid)
    rdir = os.path.join(EVDIR, "replay", pid)
    shutil.rmtree(rdir, ignore_errors=True)
    os.makedirs(rdir, exist_ok=True)

    problems, new_violations, known_hits = [], [], {}
    total = dict(paths=0, transitions=0, queries=0, solver_s=0.0, obligations=0, fallbacks=0)
    functions, models, bounds, reach_all, notes, samples, per_harness = {}, {}, {}, {}, [], [], []
    replayed = 0
    exhaustive = True
    for h in cfg["harnesses"]:
        if tier == "quick" and h.get("thorough_only"):
            continue
        r = run_gose(h, tier, outdir)
        if r.get("failed"):
            problems.append("%s: engine failed: %s" % (h["name"], r["stderr"].strip().splitlines()[-1] if r["stderr"].strip() else "?"))
            sys.stderr.write(r["stderr"])
            exhaustive = False
            continue
        viol = r.get("violations") or []
        ph = dict(name=h["name"], entry=h["entry"], paths=r["paths"], ended_paths=r["ended_paths"], queries=r["queries"],
                  solver_s=round(r["solver_s"], 2), wall_s=round(r["wall_s"], 2), load_s=round(r["load_s"], 2), exhaustive=r["exhaustive"],
                  violations=len(viol), reach=r.get("reach"), bounds=r.get("bounds"), fallback_queries=r.get("fallback_queries", 0),
                  obligations=r.get("obligations", 0))
        per_harness.append(ph)
        total["paths"] += r["paths"]; total["transitions"] += r["transitions"]; total["queries"] += r["queries"]
        total["solver_s"] += r["solver_s"]; total["obligations"] += r.get("obligations", 0); total["fallbacks"] += r.get("fallback_queries", 0)
        functions.update(r.get("functions_encoded") or {})
        for k, n in (r.get("models") or {}).items():
            models[k] = models.get(k, 0) + n
        for k, n in (r.get("bounds") or {}).items():
            bounds[h["name"] + "." + k] = n
        for k, n in (r.get("reach") or {}).items():
            reach_all[h["name"] + "." + k] = n
        notes += [h["name"] + ": " + n for n in (r.get("notes") or [])]
        for s in (r.get("samples") or [])[:2]:
            samples.append(dict(harness=h["name"], decisions=(s.get("Decisions") or [])[:60], inputs=s.get("Inputs"), reach=s.get("Reach"), steps=s["Steps"]))
        if h.get("witness"):
            # vacuity guard: the twin that ends in Fail must be reported violated
            if not any(v["label"] == "witness" for v in viol):
                problems.append("%s: vacuity guard failed (witness assertion not reached)" % h["name"])
            continue
        if r.get("inconclusive"):
            exhaustive = False
            unk = [m for m in r["inconclusive"] if m.startswith("solver returned unknown") or "decision budget exceeded" in m or "step budget" in m]
            other = [m for m in r["inconclusive"] if m not in unk]
            if tier == "thorough" and unk:
                # deeper bounds: queries the solvers could not decide within their time limits leave those paths undecided;
                # that is a reduced bound (reported), not a verdict
                notes.append("%s: %d paths undecided (solver unknown / unwinding budget), e.g. %s" % (h["name"], len(unk), unk[0][:200]))
            else:
                other = r["inconclusive"]
            for m in other[:5]:
                problems.append("%s: inconclusive: %s" % (h["name"], m[:400]))
        if not r["exhaustive"]:
            exhaustive = False
            if not r.get("inconclusive"):
                if tier == "quick":
                    problems.append("%s: not exhaustive (budget)" % h["name"])
                else:
                    notes.append("%s: wall-clock budget reached before the bound was exhausted; %d paths explored" % (h["name"], r["paths"]))
        for lab in h.get("reach", []):
            if not (r.get("reach") or {}).get(lab):
                problems.append("%s: reach label %r has no feasible path (vacuous)" % (h["name"], lab))
        seen = {}
        for v in viol:
            k = site_key(h, v)
            seen.setdefault(k, []).append(v)
        for k, vs in seen.items():
            if k in known_keys:
                known_hits[k] = known_keys[k]
                continue
            v = vs[0]
            rep = None
            if h.get("native"):
                try:
                    res = native_replay(pid, h, v, len(new_violations))
                except Exception as e:  # noqa
                    res = None
                    problems.append("%s: native replay crashed: %s" % (h["name"], e))
                if res is not None:
                    replayed += 1
                    repro, rep = res
                    if not repro and h.get("native_partial"):
                        # the native replay harness cannot rebuild every part of the model (e.g. request documents):
                        # the violation is reported from the interpreter-level replay and marked as such
                        notes.append("%s: %s not reproduced by the (partial) native replay; reported from the symbolic run" % (h["name"], v["label"]))
                        replayed -= 1
                    elif not repro:
                        problems.append("%s: ENCODING-MISMATCH: model for %s does not reproduce natively (%s)" % (h["name"], v["label"], rep))
                        continue
            if rep is None:
                rep = os.path.join(rdir, "%s-%d.replay.json" % (h["name"], len(new_violations)))
                json.dump(dict(property=pid, harness=h["name"], entry=h["entry"], key=k, violation=v,
                               replay_cmd="%s -repo %s -harness %s/harness/tree -pkgs %s -entry %s%s (follow 'decisions')" % (
                                   GOSE, REPO, VERIF, ",".join(h["pkgs"]), MOD, h["entry"])), open(rep, "w"), indent=1)
            new_violations.append((k, v, rep, len(vs)))

    for k, kf in sorted(known_hits.items()):
        print("KNOWN-FINDING: property=%s %s [%s]" % (pid, kf["what"], k))
    for k, v, rep, n in new_violations:
        print("VIOLATION property=%s replay=%s" % (pid, rep))
        print("  key=%s paths=%d label=%s where=%s msg=%s inputs=%s" % (k, n, v["label"], v.get("where"), v.get("msg", ""), json.dumps(v["inputs"])[:600]))
    for pr in problems:
        print("PROBLEM: " + pr)

    wall = time.time() - t0
    ev = {
        "property_id": pid, "tier": tier, "seed": seed, "level": "model_checking",
        "coverage": {
            "states": max(total["paths"], 0), "transitions": max(total["transitions"], 0),
            "traces_validated_against_impl": replayed,
            "samples": samples[:8] or [{"note": "no completed path"}],
            "exhaustive": bool(exhaustive and not problems),
            "explanation": cfg.get("explanation", ""),
            "functions_encoded": functions, "bounds": bounds, "queries": total["queries"], "solver_s": round(total["solver_s"], 2),
            "assertions_checked": total["obligations"], "fallback_solver_queries": total["fallbacks"],
            "models_and_stubs": models, "reach": reach_all, "per_harness": per_harness, "notes": notes,
            "known_findings_seen": sorted(known_hits.keys()), "new_violation_keys": [k for k, _, _, _ in new_violations],
            "problems": problems,
            "outside_claim": cfg.get("outside", []),
        },
        "assumptions": cfg.get("assumptions", []),
        "wall_s": round(wall, 2),
        "violations": len(new_violations),
    }
    os.makedirs(EVDIR, exist_ok=True)
    json.dump(ev, open(os.path.join(EVDIR, pid + ".json"), "w"), indent=1)
    shutil.rmtree(outdir, ignore_errors=True)
    print("vcheck %s %s: paths=%d queries=%d solver=%.1fs wall=%.1fs violations=%d known=%d problems=%d exhaustive=%s" % (
        pid, tier, total["paths"], total["queries"], total["solver_s"], wall, len(new_violations), len(known_hits), len(problems), exhaustive and not problems))
    if new_violations:
        sys.exit(1)
    if problems:
        sys.exit(3)
    sys.exit(0)


if __name__ == "__main__":
    main()
